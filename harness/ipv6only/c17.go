//go:build verif

package ipv6only

import (
	"time"

	"github.com/coredhcp/coredhcp/internal/vh"
	"github.com/coredhcp/coredhcp/internal/vnd"
	"github.com/insomniacslk/dhcp/dhcpv4"
)

var waitCases = []time.Duration{0, time.Second, 300 * time.Second, 1800 * time.Second}

func VerifH_ipv6only4() {
	v6only_wait = waitCases[vnd.Pick("wait", 0, len(waitCases)-1)]
	secs := uint32(v6only_wait / time.Second)
	req := vh.Req4()
	kind, codes := vh.PRL(req)
	resp, ec, ev := vh.Resp4(req, uint8(dhcpv4.OptionIPv6OnlyPreferred))
	n0 := len(resp.Options)

	r, stop := Handler4(req, resp)

	vnd.Assert(r != nil || stop, "C13 a built-in handler returns a nil response only together with stop")
	vnd.Assert(r != nil || stop, "C01 no handler passes a nil response on to its successors (they would dereference it)")
	vnd.Assert(r == resp, "C17 ipv6only passes the response on")
	got, present := resp.Options[uint8(dhcpv4.OptionIPv6OnlyPreferred)]
	listed := kind == 2 && vh.Listed(codes, uint8(dhcpv4.OptionIPv6OnlyPreferred))
	if listed {
		vnd.Cover("listed")
		want := []byte{byte(secs >> 24), byte(secs >> 16), byte(secs >> 8), byte(secs)}
		vnd.Assert(present && vh.BytesAre(got, want), "C17 ipv6only emits the configured wait time to clients that list option 108")
		vnd.Assert(stop, "C17 ipv6only stops processing before an address is assigned for such clients")
		vnd.Assert(vh.Untouched4(resp, req, ec, ev, n0+1), "C17 ipv6only leaves everything else untouched")
	} else {
		vnd.Cover("not-listed")
		vnd.AssertFinding("C17-ipv6only-absent-list", !present, "C17 ipv6only is sent only to clients that explicitly list option 108")
		vnd.AssertFinding("C17-ipv6only-absent-list", !stop, "C17 ipv6only does not stop processing for other clients")
	}
	vnd.Observe("v6only", got, stop)
}
