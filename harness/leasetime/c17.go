//go:build verif

package leasetime

import (
	"time"

	"github.com/coredhcp/coredhcp/internal/vh"
	"github.com/coredhcp/coredhcp/internal/vnd"
	"github.com/insomniacslk/dhcp/dhcpv4"
)

var leaseCases = []time.Duration{time.Second, 90 * time.Second, time.Hour, time.Hour + 400*time.Millisecond, 12 * time.Hour, 0}

func VerifH_leasetime4() {
	v4LeaseTime = leaseCases[vnd.Pick("lease", 0, len(leaseCases)-1)]
	secs := uint32(v4LeaseTime / time.Second)
	req := vh.Req4()
	vh.PRL(req)
	resp, ec, ev := vh.Resp4(req, uint8(dhcpv4.OptionIPAddressLeaseTime))
	var old []byte
	if vnd.Pick("already", 0, 1) == 1 {
		old = vnd.Bytes("oldlease", 4)
		resp.Options[uint8(dhcpv4.OptionIPAddressLeaseTime)] = append([]byte(nil), old...)
	}
	n0 := len(resp.Options)

	r, stop := Handler4(req, resp)

	vnd.Assert(r != nil || stop, "C13 a built-in handler returns a nil response only together with stop")
	vnd.Assert(r != nil || stop, "C01 no handler passes a nil response on to its successors (they would dereference it)")
	vnd.Assert(r == resp && !stop, "C17 leasetime passes the response on")
	got, present := resp.Options[uint8(dhcpv4.OptionIPAddressLeaseTime)]
	if old != nil {
		vnd.Cover("already-set")
		vnd.Assert(present && vh.BytesAre(got, old), "C17 leasetime never overwrites a lease time that is already set")
		vnd.Assert(vh.Untouched4(resp, req, ec, ev, n0), "C17 leasetime leaves everything else untouched")
	} else {
		vnd.Cover("default")
		want := []byte{byte(secs >> 24), byte(secs >> 16), byte(secs >> 8), byte(secs)}
		vnd.Assert(present && vh.BytesAre(got, want), "C17 leasetime sets the configured default lease time when none is set")
		vnd.Assert(vh.Untouched4(resp, req, ec, ev, n0+1), "C17 leasetime leaves everything else untouched")
	}
	vnd.Observe("lease", got)
}

// VerifH_leasetime_setup: through the real setup4, the option carries the
// whole seconds of the configured duration (the wire encoding truncates).
func VerifH_leasetime_setup() {
	cases := []struct {
		arg  string
		secs uint32
	}{{"3600s", 3600}, {"1h30m", 5400}, {"1500ms", 1}, {"500ms", 0}, {"1h0m0.75s", 3600}, {"2.499s", 2}, {"59.999s", 59}}
	c := cases[vnd.Pick("case", 0, len(cases)-1)]
	h, err := setup4(c.arg)
	vnd.Assert(err == nil && h != nil, "C17 leasetime accepts a duration")
	if err != nil || h == nil {
		return
	}
	req := vh.Req4()
	resp, _, _ := vh.Resp4(req, uint8(dhcpv4.OptionIPAddressLeaseTime))
	r, stop := h(req, resp)
	vnd.Cover("served")
	vnd.Assert(r == resp && !stop, "C17 leasetime passes the response on")
	got := resp.Options[uint8(dhcpv4.OptionIPAddressLeaseTime)]
	want := []byte{byte(c.secs >> 24), byte(c.secs >> 16), byte(c.secs >> 8), byte(c.secs)}
	vnd.Assert(vh.BytesAre(got, want), "C17 leasetime emits the whole seconds of the configured duration")
}
