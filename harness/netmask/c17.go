//go:build verif

package netmask

import (
	"net"

	"github.com/coredhcp/coredhcp/internal/vh"
	"github.com/coredhcp/coredhcp/internal/vnd"
	"github.com/insomniacslk/dhcp/dhcpv4"
)

func VerifH_netmask4() {
	m := vnd.Bytes("mask", 4)
	netmask = net.IPv4Mask(m[0], m[1], m[2], m[3])
	vnd.Assume(checkValidNetmask(netmask))
	req := vh.Req4()
	vh.PRL(req)
	resp, ec, ev := vh.Resp4(req, uint8(dhcpv4.OptionSubnetMask))
	n0 := len(resp.Options)

	r, stop := Handler4(req, resp)

	vnd.Assert(r != nil || stop, "C13 a built-in handler returns a nil response only together with stop")
	vnd.Assert(r != nil || stop, "C01 no handler passes a nil response on to its successors (they would dereference it)")
	vnd.Cover("emitted")
	vnd.Assert(r == resp && !stop, "C17 netmask passes the response on")
	got, present := resp.Options[uint8(dhcpv4.OptionSubnetMask)]
	vnd.Assert(present && vh.BytesAre(got, m), "C17 netmask emits exactly the configured mask, unconditionally")
	vnd.Assert(vh.Untouched4(resp, req, ec, ev, n0+1), "C17 netmask leaves everything else untouched")
	vnd.Observe("mask", got)
}

// VerifH_netmask_valid: checkValidNetmask accepts exactly the contiguous masks.
func VerifH_netmask_valid() {
	m := vnd.Bytes("mask", 4)
	v := uint32(m[0])<<24 | uint32(m[1])<<16 | uint32(m[2])<<8 | uint32(m[3])
	// case split on the number of leading one bits (33 cases covering all masks): keeps
	// the query easy for implementations that count bits instead of using (x+1)&x
	lead := vnd.Pick("lead", 0, 32)
	if lead > 0 {
		vnd.Assume(v>>uint(32-lead) == ^uint32(0)>>uint(32-lead))
	}
	if lead < 32 {
		vnd.Assume(v>>uint(31-lead)&1 == 0)
	}
	contiguous := false
	for n := 0; n <= 32; n++ {
		var want uint32
		if n > 0 {
			want = ^uint32(0) << uint(32-n)
		}
		contiguous = vnd.Or(contiguous, v == want)
	}
	vnd.Cover("checked")
	vnd.Assert(checkValidNetmask(net.IPv4Mask(m[0], m[1], m[2], m[3])) == contiguous, "C17 netmask validity is contiguity")
}
