//go:build verif

package server

import (
	"errors"
	"net"

	"github.com/coredhcp/coredhcp/handler"
	"github.com/coredhcp/coredhcp/internal/vnd"
	"github.com/insomniacslk/dhcp/dhcpv4"
	"github.com/insomniacslk/dhcp/iana"
	"golang.org/x/net/ipv4"
)

type call4 struct {
	idx       int
	req, resp *dhcpv4.DHCPv4
	ret       *dhcpv4.DHCPv4
	stop      bool
	nak       bool
}

var calls4 []call4

// gHandler4 is an arbitrary function satisfying the handler contract G4
// (DESIGN.md 5.3): its behaviour for this invocation is chosen by picks.
// 0 pass unchanged, 1 modify in place, 2 replace the response object,
// 3 stop with the response, 4 stop with nil, 5 turn the reply into a NAK.
func gHandler4(i int) handler.Handler4 {
	return func(req, resp *dhcpv4.DHCPv4) (ret *dhcpv4.DHCPv4, stop bool) {
		nak := false
		ret = resp
		switch vnd.Pick("h"+string(rune('0'+i)), 0, 5) {
		case 1:
			resp.YourIPAddr = net.IP(vnd.Bytes("yi", 4))
			resp.Options[uint8(dhcpv4.OptionSubnetMask)] = vnd.Bytes("mask", 4)
		case 2:
			n := *resp
			n.Options = dhcpv4.Options{}
			for k, v := range resp.Options {
				n.Options[k] = v
			}
			n.ServerIPAddr = net.IP(vnd.Bytes("si", 4))
			ret = &n
		case 3:
			stop = true
		case 4:
			ret, stop = nil, true
		case 5:
			resp.Options[uint8(dhcpv4.OptionDHCPMessageType)] = []byte{byte(dhcpv4.MessageTypeNak)}
			nak = true
		}
		calls4 = append(calls4, call4{i, req, resp, ret, stop, nak})
		return
	}
}

func ip4v(ip net.IP) uint32 {
	return uint32(ip[0])<<24 | uint32(ip[1])<<16 | uint32(ip[2])<<8 | uint32(ip[3])
}

func bytesAre(got, want []byte) bool {
	if len(got) != len(want) {
		return false
	}
	eq := true
	for i := range got {
		eq = vnd.And(eq, got[i] == want[i])
	}
	return eq
}

// parsed4 draws a request in the shape dhcpv4.FromBytes produces: any opcode
// byte, 4-byte address fields, chaddr of hlen<=16 bytes over a 16-byte array,
// message type option absent / one byte / two bytes, options 82 and 61.
func parsed4() (req *dhcpv4.DHCPv4, mtKind int, mt byte, o82, o61 []byte) {
	hw := make(net.HardwareAddr, 16)
	copy(hw, vnd.Bytes("chaddr", 16))
	req = &dhcpv4.DHCPv4{OpCode: dhcpv4.OpcodeType(vnd.U8("opcode")), HWType: iana.HWType(vnd.U8("htype")), HopCount: vnd.U8("hops"),
		NumSeconds: vnd.U16("secs"), Flags: vnd.U16("flags"), ClientHWAddr: hw[:vnd.Pick("hlen", 0, 16)], Options: dhcpv4.Options{},
		ClientIPAddr: net.IP(vnd.Bytes("ciaddr", 4)), YourIPAddr: net.IP(vnd.Bytes("yiaddr", 4)), ServerIPAddr: net.IP(vnd.Bytes("siaddr", 4)), GatewayIPAddr: net.IP(vnd.Bytes("giaddr", 4))}
	copy(req.TransactionID[:], vnd.Bytes("xid", 4))
	mtKind = vnd.Pick("mtkind", 0, 2)
	switch mtKind {
	case 1:
		mt = vnd.U8("msgtype")
		req.Options[uint8(dhcpv4.OptionDHCPMessageType)] = []byte{mt}
	case 2:
		req.Options[uint8(dhcpv4.OptionDHCPMessageType)] = vnd.Bytes("msgtype2", 2)
	}
	if vnd.Pick("opt82", 0, 1) == 1 {
		o82 = vnd.Bytes("o82", 3)
		req.Options[uint8(dhcpv4.OptionRelayAgentInformation)] = o82
	}
	if vnd.Pick("opt61", 0, 1) == 1 {
		o61 = vnd.Bytes("o61", 3)
		req.Options[uint8(dhcpv4.OptionClientIdentifier)] = o61
	}
	return
}

// VerifH_handle4: HandleMsg4 with the codec entry stubbed by its post-condition
// and handlers that are arbitrary contract-satisfying functions (C11, C13, C15, C01).
func VerifH_handle4() {
	sent, calls4 = nil, nil
	nh := vnd.Pick("chain", 0, 3)
	var hs []handler.Handler4
	for i := 0; i < nh; i++ {
		hs = append(hs, gHandler4(i))
	}
	bound := 0
	if vnd.Pick("bound", 0, 1) == 1 {
		bound = vnd.Range("boundidx", 1, 1<<20)
	}
	l := &listener4{Interface: net.Interface{Index: bound}, handlers: hs}
	var oob *ipv4.ControlMessage
	rcvIdx := 0
	if vnd.Pick("oob", 0, 1) == 1 {
		rcvIdx = vnd.Range("rcvidx", 0, 1<<20)
		oob = &ipv4.ControlMessage{IfIndex: rcvIdx}
	}
	if vnd.Pick("E1", 1, 1) == 1 && bound == 0 {
		// E1: an unbound listener enables FlagInterface (checked in VerifH_listen), so every
		// datagram arrives with the index of the receiving interface
		vnd.Assume(oob != nil && rcvIdx != 0)
	}
	parseFails := vnd.Pick("parse", 0, 1) == 1
	var req *dhcpv4.DHCPv4
	var mtKind int
	var mt byte
	var o82, o61 []byte
	if parseFails {
		stubReq4, stubErr4 = nil, errors.New("buffer too short")
	} else {
		req, mtKind, mt, o82, o61 = parsed4()
		stubReq4, stubErr4 = req, nil
	}

	ethFails = false
	l.HandleMsg4(make([]byte, 300), oob, &net.UDPAddr{IP: net.IP(vnd.Bytes("src", 4)), Port: 68})

	// frame condition behind the one-datagram analysis: handling a datagram leaves the
	// listener as configured, so every datagram of a history is handled from this state
	vnd.Assert(l.Interface.Index == bound && l.Interface.Name == "" && len(l.handlers) == nh, "C15 handling a datagram leaves the listener's interface binding as configured (no datagram influences where later replies leave)")

	vnd.Assert(len(sent) <= 1, "C01 at most one reply per datagram")
	vnd.Assert(len(sent) <= 1, "C15 a reply leaves by exactly one means (a link-level send that fails is not retried as an ordinary IP unicast, whose link-level destination ARP would choose)")
	answerable := !parseFails && req.OpCode == dhcpv4.OpcodeBootRequest && mtKind == 1 &&
		(mt == byte(dhcpv4.MessageTypeDiscover) || mt == byte(dhcpv4.MessageTypeRequest))
	if !answerable {
		vnd.Cover("not-answerable")
		vnd.Assert(len(sent) == 0, "C11 non-requests, other message types and unparseable datagrams are never answered")
		vnd.Assert(len(calls4) == 0, "C13 handlers are not invoked for datagrams that are not answerable")
		return
	}
	if vnd.Pick("xidfails", 0, 1) == 1 { // preset 0 unless the case asks for the failing entropy source
		vnd.Cover("reply-construction-failed")
		vnd.Assert(len(sent) == 0 && len(calls4) == 0, "C11 no reply when the reply cannot be built")
		return
	}
	// ---- C13: dispatch order and stop semantics ----
	var last *dhcpv4.DHCPv4
	stopped, nak := false, false
	ncalls := 0
	for i := 0; i < nh && !stopped; i++ {
		vnd.Assert(len(calls4) > i && calls4[i].idx == i, "C13 handlers run in configured order, at most once each")
		if len(calls4) <= i {
			return
		}
		ncalls++
		vnd.Assert(calls4[i].req == req, "C13 every handler receives the original request")
		if i > 0 {
			vnd.Assert(calls4[i].resp == last, "C13 every handler receives its predecessor's response")
		} else {
			vnd.Assert(calls4[i].resp != nil, "C13 the first handler receives the server's reply skeleton")
		}
		last, stopped = calls4[i].ret, calls4[i].stop
		nak = nak || calls4[i].nak
	}
	vnd.Assert(len(calls4) == ncalls, "C13 nothing runs after the first handler that signals stop")
	if nh > 0 && last == nil {
		vnd.Cover("chain-returned-nil")
		vnd.Assert(len(sent) == 0, "C13 a nil response means nothing is sent")
		return
	}
	vnd.Assert(len(sent) == 1, "C11 an answerable request whose chain returns a response is answered exactly once")
	if len(sent) != 1 {
		return
	}
	ev := sent[0]
	// the struct that was sent
	var resp *dhcpv4.DHCPv4
	if ev.l2 {
		resp = ev.resp4
	} else {
		// compare the wire bytes with the response returned last
		vnd.Assert(len(ev.bytes) >= 240, "C11 reply is a full BOOTP message")
		if len(ev.bytes) < 240 {
			return
		}
		b := ev.bytes
		vnd.Cover("sent-udp")
		vnd.Assert(b[0] == 2, "C11 reply is a BOOTREPLY")
		vnd.Assert(b[1] == byte(req.HWType), "C11 reply carries the request's hardware type")
		vnd.Assert(bytesAre(b[4:8], req.TransactionID[:]), "C11 reply carries the request's transaction id")
		vnd.Assert(uint16(b[10])<<8|uint16(b[11]) == req.Flags, "C11 reply carries the request's flags")
		vnd.Assert(bytesAre(b[24:28], req.GatewayIPAddr), "C11 reply carries the request's relay agent address")
		hl := len(req.ClientHWAddr)
		vnd.Assert(int(b[2]) == hl && bytesAre(b[28:28+hl], req.ClientHWAddr), "C11 reply carries the request's hardware address")
	}
	if last != nil && !ev.l2 {
		vnd.Assert(bytesAre(ev.bytes, last.ToBytes()), "C13 what is sent is the response returned last")
	}
	if last != nil && ev.l2 {
		vnd.Assert(resp == last, "C13 what is sent is the response returned last")
	}
	if resp == nil {
		resp = last
	}
	if resp != nil {
		vnd.Assert(resp.OpCode == dhcpv4.OpcodeBootReply && resp.TransactionID == req.TransactionID && resp.HWType == req.HWType && resp.Flags == req.Flags, "C11 reply header echoes the request")
		got82, has82 := resp.Options[uint8(dhcpv4.OptionRelayAgentInformation)]
		got61, has61 := resp.Options[uint8(dhcpv4.OptionClientIdentifier)]
		vnd.Assert(has82 == (o82 != nil) && (o82 == nil || bytesAre(got82, o82)), "C11 relay agent information option is echoed exactly when present")
		vnd.Assert(has61 == (o61 != nil) && (o61 == nil || bytesAre(got61, o61)), "C11 client identifier option is echoed exactly when present")
		rt := resp.Options[uint8(dhcpv4.OptionDHCPMessageType)]
		vnd.Assert(len(rt) == 1, "C11 reply has a message type")
		if len(rt) == 1 {
			if mt == byte(dhcpv4.MessageTypeDiscover) && !nak {
				vnd.Assert(rt[0] == byte(dhcpv4.MessageTypeOffer), "C11 a DISCOVER is answered with an OFFER")
			}
			if mt == byte(dhcpv4.MessageTypeRequest) && !nak {
				vnd.Assert(rt[0] == byte(dhcpv4.MessageTypeAck), "C11 a REQUEST is answered with an ACK")
			}
			if nak {
				vnd.Assert(rt[0] == byte(dhcpv4.MessageTypeNak), "C11 a plugin's NAK is sent as NAK")
			}
			// ---- C15: destination per RFC 2131 section 4.1 ----
			gi, ci := ip4v(req.GatewayIPAddr), ip4v(req.ClientIPAddr)
			bcastFlag := req.Flags&0x8000 != 0
			isNak := rt[0] == byte(dhcpv4.MessageTypeNak)
			wantIdx := bound
			if bound == 0 {
				wantIdx = rcvIdx
			}
			var wantIP uint32
			wantPort, wantL2 := 68, false
			switch {
			case gi != 0:
				wantIP, wantPort = gi, 67
				vnd.Cover("to-relay")
			case isNak:
				wantIP = 0xffffffff
				vnd.Cover("nak-broadcast")
			case ci != 0:
				wantIP = ci
				vnd.Cover("to-ciaddr")
			case bcastFlag:
				wantIP = 0xffffffff
				vnd.Cover("flag-broadcast")
			default:
				wantL2 = true
				vnd.Cover("l2-unicast")
			}
			vnd.Assert(ev.l2 == wantL2, "C15 link-level unicast exactly when no relay, no NAK, no ciaddr and no broadcast flag")
			if wantL2 && ev.l2 {
				vnd.Assert(ev.iface.Index == wantIdx, "C15 link-level reply leaves on the bound, else the receiving interface")
			}
			if !wantL2 && !ev.l2 {
				ua, ok := ev.peer.(*net.UDPAddr)
				vnd.Assert(ok && ua.IP.To4() != nil, "C15 destination is an IPv4 UDP address")
				if ok && ua.IP.To4() != nil {
					vnd.Assert(ip4v(ua.IP.To4()) == wantIP, "C15 destination address per RFC 2131 4.1")
					vnd.Assert(ua.Port == wantPort, "C15 server port towards a relay, client port otherwise")
					linkLocal := wantIP>>16 == 0xa9fe
					pinned := wantIP == 0xffffffff || linkLocal
					if pinned {
						vnd.Assert(ev.cm4 != nil && ev.cm4.IfIndex == wantIdx, "C15 broadcast and link-local replies are pinned to the bound, else the receiving interface")
					} else {
						vnd.Assert(ev.cm4 == nil, "C15 replies to routable addresses are not pinned to an interface")
					}
				}
			}
		}
	}
}
