//go:build verif

package rangeplugin

import (
	"net"
	"time"

	"github.com/coredhcp/coredhcp/internal/vnd"
	"github.com/coredhcp/coredhcp/plugins/allocators/bitmap"
	"github.com/insomniacslk/dhcp/dhcpv4"
	"github.com/insomniacslk/dhcp/iana"
)

var leaseCases = []time.Duration{time.Second, 90 * time.Second, time.Hour, time.Hour + 400*time.Millisecond, 12 * time.Hour}

func hbit(words []uint64, i uint64) bool { return (words[i>>6]>>(i&63))&1 == 1 }

func ip4of(v uint32) net.IP { return net.IP{byte(v >> 24), byte(v >> 16), byte(v >> 8), byte(v)} }

func u32of(ip net.IP) uint32 {
	return uint32(ip[0])<<24 | uint32(ip[1])<<16 | uint32(ip[2])<<8 | uint32(ip[3])
}

type rworld struct {
	p        *PluginState
	alloc    *bitmap.IPv4Allocator
	pre      []uint64
	start    uint32
	n        int
	mac      net.HardwareAddr
	key      string
	hasSelf  bool
	selfIP   uint32
	selfExp  int
	hasOther bool
	otherKey string
	otherIP  uint32
	lease    time.Duration
	dbfail   bool // every write to the lease database fails during the step
}

// rangeStart draws the first address of the range. The three high bytes are
// symbolic inside one decimal-digit class (1, 2 or 3 digits, chosen by the
// "cls" pick) so that the dotted-quad text written to the store has a fixed
// length on each path; the low byte is fully symbolic.
func rangeStart() uint32 {
	cls := vnd.Pick("cls", 0, 3)
	if cls == 3 {
		return 0xffffff00 | uint32(vnd.U8("startlow")) // ranges ending at 255.255.255.255
	}
	lo, hi := []uint8{0, 10, 100}[cls], []uint8{9, 99, 255}[cls]
	var v uint32
	for i := 0; i < 3; i++ {
		b := vnd.U8("starthigh")
		vnd.Assume(vnd.And(b >= lo, b <= hi))
		v = v<<8 | uint32(b)
	}
	return v<<8 | uint32(vnd.U8("startlow"))
}

// makeRange builds an arbitrary state satisfying Inv_range (DESIGN.md 5.2).
func makeRange() *rworld {
	w := &rworld{}
	dbReset()
	w.n = vnd.Pick("N", 1, 256)
	w.start = rangeStart()
	vnd.Assume(uint64(w.start)+uint64(w.n)-1 <= 0xffffffff)
	// the range stays inside one /24 so that only the last octet's digit count varies
	vnd.Assume(uint64(w.start&0xff)+uint64(w.n)-1 <= 0xff)
	nw := (w.n + 63) / 64
	words := vnd.U64s("bitmap", nw)
	if w.n%64 != 0 {
		vnd.Assume(words[nw-1]>>(uint(w.n)%64) == 0)
	}
	w.pre = append([]uint64(nil), words...)
	w.alloc = bitmap.VerifNewIPv4Allocator(w.start, w.start+uint32(w.n)-1, words)
	w.lease = leaseCases[vnd.Pick("lease", 0, len(leaseCases)-1)]
	w.p = &PluginState{Recordsv4: make(map[string]*Record), LeaseTime: w.lease, leasedb: dbOpen(), allocator: w.alloc}

	hl := vnd.Pick("hlen", 0, 16)
	if sel := vnd.Pick("concmac", 0, 3); sel > 0 {
		// a concrete representative (used where the text is parsed back: the
		// all-bytes statement about the text encoding is VerifH_range_mactext)
		w.mac = make(net.HardwareAddr, hl)
		for i := range w.mac {
			w.mac[i] = []byte{0x00, 0x05, 0xab}[sel-1] + byte(i)*[]byte{0, 0x11, 0x13}[sel-1]
		}
	} else {
		w.mac = net.HardwareAddr(vnd.Bytes("chaddr", hl))
	}
	if hl == 0 {
		w.mac = net.HardwareAddr{}
	}
	w.key = w.mac.String()

	if vnd.Pick("self", 0, 1) == 1 {
		i := vnd.U64("selfblock")
		vnd.Assume(i < uint64(w.n))
		vnd.Assume(hbit(words, i))
		w.hasSelf, w.selfIP = true, w.start+uint32(i)
		w.selfExp = vnd.Range("selfexpiry", 946684800, 4102444800) // years 2000..2100
		ip := ip4of(w.selfIP)
		if vnd.Pick("selfform", 0, 1) == 1 {
			ip = ip.To16() // the form loadRecords leaves after a restart
		}
		host := string(vnd.Bytes("selfhost", vnd.Pick("selfhostlen", 0, 2)))
		w.p.Recordsv4[w.key] = &Record{IP: ip, expires: w.selfExp, hostname: host}
		dbInsert(w.p.leasedb, dbRow{mac: w.key, ip: ip.String(), expiry: w.selfExp, hostname: host})
	}
	if vnd.Pick("other", 0, 1) == 1 {
		om := net.HardwareAddr(vnd.Bytes("othermac", 6))
		if vnd.Pick("concmac", 0, 3) > 0 {
			om = net.HardwareAddr{0x02, 0xfe, 0x10, 0x99, 0xa0, 0x0b}
		}
		w.otherKey = om.String()
		vnd.Assume(w.otherKey != w.key)
		j := vnd.U64("otherblock")
		vnd.Assume(j < uint64(w.n))
		vnd.Assume(hbit(words, j))
		if w.hasSelf {
			vnd.Assume(w.start+uint32(j) != w.selfIP)
		}
		w.hasOther, w.otherIP = true, w.start+uint32(j)
		oexp := vnd.Range("otherexpiry", 946684800, 4102444800)
		w.p.Recordsv4[w.otherKey] = &Record{IP: ip4of(w.otherIP), expires: oexp}
		dbInsert(w.p.leasedb, dbRow{mac: w.otherKey, ip: ip4of(w.otherIP).String(), expiry: oexp, hostname: ""})
	}
	// fault case: the lease database rejects every write during the step (disk
	// full, I/O error). C02 must still hold; C03 is about what a successful
	// write stored and is not asserted in this case.
	if vnd.Pick("dbfail", 0, 1) == 1 {
		w.dbfail = true
		if vnd.Symbolic() {
			dbFailing = true
		} else {
			w.p.leasedb.Close()
		}
	}
	vnd.ClockJump()
	return w
}

func (w *rworld) request() (*dhcpv4.DHCPv4, *dhcpv4.DHCPv4, string) {
	req := &dhcpv4.DHCPv4{OpCode: dhcpv4.OpcodeBootRequest, HWType: iana.HWTypeEthernet, ClientHWAddr: w.mac, Options: dhcpv4.Options{},
		ClientIPAddr: make(net.IP, 4), YourIPAddr: make(net.IP, 4), ServerIPAddr: make(net.IP, 4), GatewayIPAddr: make(net.IP, 4)}
	mt, rt := byte(dhcpv4.MessageTypeDiscover), byte(dhcpv4.MessageTypeOffer)
	if vnd.Pick("reqtype", 0, 1) == 1 {
		mt, rt = byte(dhcpv4.MessageTypeRequest), byte(dhcpv4.MessageTypeAck)
	}
	req.Options[uint8(dhcpv4.OptionDHCPMessageType)] = []byte{mt}
	host := ""
	if hn := vnd.Pick("hostlen", 0, 3); hn > 0 {
		hb := vnd.Bytes("hostname", hn-1)
		for _, c := range hb {
			vnd.Assume(c != 0) // trailing NULs are trimmed by the library; covered by hostlen
		}
		host = string(hb)
		req.Options[uint8(dhcpv4.OptionHostName)] = append([]byte(nil), hb...)
	}
	resp := &dhcpv4.DHCPv4{OpCode: dhcpv4.OpcodeBootReply, HWType: req.HWType, ClientHWAddr: req.ClientHWAddr, Options: dhcpv4.Options{},
		ClientIPAddr: make(net.IP, 4), YourIPAddr: make(net.IP, 4), ServerIPAddr: make(net.IP, 4), GatewayIPAddr: make(net.IP, 4)}
	resp.Options[uint8(dhcpv4.OptionDHCPMessageType)] = []byte{rt}
	return req, resp, host
}

func sameWords(a, b []uint64) bool {
	ok := len(a) == len(b)
	for i := range a {
		ok = vnd.And(ok, a[i] == b[i])
	}
	return ok
}

func allSet(words []uint64, n int) bool {
	ok := true
	for w := range words {
		full := ^uint64(0)
		if w == len(words)-1 && n%64 != 0 {
			full = (uint64(1) << (uint(n) % 64)) - 1
		}
		ok = vnd.And(ok, words[w] == full)
	}
	return ok
}

// VerifH_range_step: one Handler4 call from an arbitrary Inv_range state (C02, C03).
func VerifH_range_step() {
	w := makeRange()
	req, resp, _ := w.request()
	tBefore := time.Now()

	vnd.Share("range", w.p)
	r, stop := w.p.Handler4(req, resp)
	vnd.Unshare()

	vnd.Assert(r != nil || stop, "C13 a built-in handler returns a nil response only together with stop")
	vnd.Assert(r != nil || stop, "C01 no handler passes a nil response on to its successors (they would dereference it)")
	vnd.AssertEngine(vnd.HeldLocks() == 0, "C16 range plugin lock released")
	if vnd.Symbolic() {
		vnd.AssertEngine(vnd.Acquisitions(&w.p.Mutex) == 1, "C16 the range handler runs inside exactly one critical section of the plugin mutex")
	}
	post := w.alloc.VerifWords()
	end := w.start + uint32(w.n) - 1
	var rows []dbRow
	if !w.dbfail {
		rows = dbAll(w.p.leasedb)
	}
	if r == nil {
		vnd.Cover("no-reply")
		vnd.Assert(stop, "C02 nil response only with stop")
		vnd.Assert(!w.hasSelf, "C02 a client that is already bound keeps being served")
		vnd.Assert(allSet(w.pre, w.n), "C02 an unknown client is refused only when every address is bound")
		vnd.Assert(sameWords(post, w.pre), "C02 a refused request changes nothing")
		_, recorded := w.p.Recordsv4[w.key]
		vnd.Assert(!recorded, "C02 a refused request records nothing")
		return
	}
	vnd.Cover("reply")
	vnd.Assert(r == resp && !stop, "C02 the response is passed on")
	yi := r.YourIPAddr.To4()
	vnd.Assert(yi != nil, "C02 yiaddr is an IPv4 address")
	if yi == nil {
		return
	}
	v := u32of(yi)
	vnd.Assert(vnd.And(v >= w.start, v <= end), "C02 the leased address lies inside the configured range")
	if w.hasSelf {
		vnd.Cover("known-client")
		vnd.Assert(v == w.selfIP, "C02 a client is always given the address it was first given")
		vnd.Assert(sameWords(post, w.pre), "C02 serving a known client allocates nothing")
	} else {
		vnd.Cover("new-client")
		i := uint64(v - w.start)
		vnd.Assume(i < uint64(w.n))
		vnd.Assert(!hbit(w.pre, i), "C02 a new client gets an address nobody holds")
	}
	if w.hasOther {
		vnd.Assert(v != w.otherIP, "C02 no address is bound to two hardware addresses")
	}
	// configured lease time, rounded to seconds
	secs := uint32((w.lease + 500*time.Millisecond) / time.Second)
	lt := r.Options[uint8(dhcpv4.OptionIPAddressLeaseTime)]
	vnd.Assert(len(lt) == 4 && u32of(lt) == secs, "C02 the reply carries the configured lease time")
	// post-state invariant
	rec := w.p.Recordsv4[w.key]
	vnd.Assert(rec != nil && rec.IP.To4() != nil && u32of(rec.IP.To4()) == v, "C02 the binding is recorded under the client's hardware address")
	j := uint64(v - w.start)
	vnd.Assume(j < uint64(w.n))
	vnd.Assert(hbit(post, j), "C02 the leased address is marked outstanding")
	if w.hasOther {
		o := w.p.Recordsv4[w.otherKey]
		vnd.Assert(o != nil && u32of(o.IP.To4()) == w.otherIP, "C02 other clients' bindings are untouched")
	}
	if rec == nil {
		return
	}
	if w.dbfail {
		vnd.Cover("write-failed")
		vnd.Observe("lease", []byte(yi), lt)
		return
	}
	// C03: the store holds exactly this binding, written before the reply is returned
	found := 0
	for _, row := range rows {
		if row.mac == affinity(w.key) {
			found++
			vnd.Assert(row.ip == ip4of(v).String(), "C03 the stored row carries the leased address")
			vnd.Assert(row.expiry == rec.expires, "C03 the stored expiry equals the in-memory one")
			// never earlier than the end of the lease just promised (1 s store resolution)
			if vnd.Pick("checkexpiry", 0, 1) == 1 {
				vnd.Cover("expiry-checked")
				vnd.Assert(int64(row.expiry) >= tBefore.Add(w.lease).Unix(), "C03 the stored expiry is not earlier than the end of the promised lease")
			}
		}
	}
	vnd.Assert(found == 1, "C03 exactly one stored row per bound client")
	want := 1
	if w.hasOther {
		want = 2
	}
	vnd.Assert(len(rows) == want, "C03 the store holds exactly the bindings handed out")
	vnd.Observe("lease", []byte(yi), lt)
}

// VerifH_range_roundtrip (C03): after any step, restarting on the store the
// plugin has written restores exactly the in-memory bindings: the real
// loadRecords parses back every hardware-address and address text the real
// saveIPAddress wrote.
func VerifH_range_roundtrip() {
	w := makeRange()
	req, resp, _ := w.request()
	r, _ := w.p.Handler4(req, resp)
	if r == nil {
		return
	}
	vnd.Cover("served")
	loaded, err := loadRecords(w.p.leasedb)
	vnd.AssertFinding("C03-chaddr-length-not-6-8-20", err == nil, "C03 restarting on the database the server wrote succeeds")
	if err != nil {
		return
	}
	vnd.Cover("restored")
	vnd.Assert(len(loaded) == len(w.p.Recordsv4), "C03 restart restores exactly the bindings handed out (none lost or duplicated)")
	rec := loaded[w.key]
	vnd.Assert(rec != nil, "C03 restart restores the client's binding under the same hardware address")
	if rec != nil {
		mem := w.p.Recordsv4[w.key]
		vnd.Assert(rec.IP.To4() != nil && u32of(rec.IP.To4()) == u32of(mem.IP.To4()), "C03 restart restores the same address for the client")
		vnd.Assert(rec.expires == mem.expires, "C03 restart restores the stored expiry")
	}
	if w.hasOther {
		o := loaded[w.otherKey]
		vnd.Assert(o != nil && o.IP.To4() != nil && u32of(o.IP.To4()) == w.otherIP, "C03 restart restores other clients' bindings")
	}
}

// VerifH_range_mactext (C03): for every hardware-address length 0..16 and all
// byte values, the text the server stores for a client (HardwareAddr.String,
// then the column's NUMERIC affinity) is parsed back by the loader's parser to
// the same address, so the binding reappears under the same key.
func VerifH_range_mactext() {
	hl := vnd.Pick("hlen", 0, 16)
	mac := net.HardwareAddr(vnd.Bytes("chaddr", hl))
	if hl == 0 {
		mac = net.HardwareAddr{}
	}
	dbReset()
	db := dbOpen()
	dbInsert(db, dbRow{mac: mac.String(), ip: "10.0.0.1", expiry: 1, hostname: ""})
	loaded, err := loadRecords(db) // the real loader, whatever parser it uses
	vnd.Cover("checked")
	vnd.AssertFinding("C03-chaddr-length-not-6-8-20", err == nil, "C03 the stored hardware address text is accepted on restart")
	if err != nil {
		return
	}
	vnd.Assert(len(loaded) == 1, "C03 one stored row restores one binding")
	_, ok := loaded[mac.String()]
	vnd.Assert(ok, "C03 the stored hardware address text restores the binding under the same hardware address")
}

// VerifH_range_iptext (C03): the address text written to the store parses back
// to the same IPv4 address, for all addresses (digit-count classes by case).
func VerifH_range_iptext() {
	var b [4]byte
	for i := range b {
		cls := vnd.Pick("digits"+string(rune('0'+i)), 0, 2)
		b[i] = vnd.U8("octet")
		vnd.Assume(vnd.And(b[i] >= []uint8{0, 10, 100}[cls], b[i] <= []uint8{9, 99, 255}[cls]))
	}
	ip := net.IP(b[:])
	if vnd.Pick("form", 0, 1) == 1 {
		ip = ip.To16()
	}
	back := net.ParseIP(ip.String())
	vnd.Cover("checked")
	vnd.Assert(back.To4() != nil, "C03 the stored address text is accepted on restart")
	if back.To4() != nil {
		vnd.Assert(u32of(back.To4()) == u32of(b[:]), "C03 the stored address text parses back to the same address")
	}
}

// VerifH_range_restart (C02/C03/C07, obligation P1): setupRange on a store
// holding any bindings of the invariant form re-creates exactly those bindings,
// re-marks every stored address in the allocator (so that it is never handed to
// somebody else) and refuses to start when the store binds one address twice.
func VerifH_range_restart() {
	dbReset()
	lo := vnd.U8("startlow")
	n := vnd.Pick("N", 2, 64)
	vnd.Assume(int(lo)+n-1 <= 255 && lo >= 100) // three-digit last octet: one text length per path
	startIP := net.IP{10, 200, 150, lo}
	endIP := net.IP{10, 200, 150, lo + byte(n) - 1}
	nrows := vnd.Pick("rows", 0, 3)
	macs := []string{"00:11:22:33:44:55", "aa:bb:cc:dd:ee:ff:00:11", "05", ""}
	var offs []uint8
	dup := false
	for i := 0; i < nrows; i++ {
		o := vnd.U8("offset")
		vnd.Assume(int(o) < n)
		for _, p := range offs {
			if vnd.Pick("dup", 0, 1) == 1 {
				vnd.Assume(o == p) // two hardware addresses bound to one address: a corrupt store
				dup = true
			} else {
				vnd.Assume(o != p)
			}
		}
		offs = append(offs, o)
		dbRows = append(dbRows, dbRow{mac: affinity(macs[i]), ip: net.IP{10, 200, 150, lo + o}.String(), expiry: vnd.Range("expiry", 946684800, 4102444800), hostname: "h"})
	}
	h, err := setupRange("leases.sqlite3", startIP.String(), endIP.String(), "1h")
	if dup {
		vnd.Cover("duplicate-address")
		vnd.Assert(err != nil && h == nil, "C02 start-up refuses a store that binds one address to two clients")
		return
	}
	vnd.Cover("restarted")
	vnd.Assert(err == nil && h != nil, "C03 restarting on a store of valid bindings succeeds")
	if err != nil || h == nil {
		return
	}
	// every stored address is now outstanding: an unknown client never receives one of them
	req := &dhcpv4.DHCPv4{OpCode: dhcpv4.OpcodeBootRequest, HWType: iana.HWTypeEthernet, ClientHWAddr: net.HardwareAddr{2, 2, 2, 2, 2, 2}, Options: dhcpv4.Options{}}
	resp := &dhcpv4.DHCPv4{OpCode: dhcpv4.OpcodeBootReply, Options: dhcpv4.Options{}}
	r, _ := h(req, resp)
	if r != nil {
		got := r.YourIPAddr.To4()
		vnd.Assert(got != nil && got[0] == 10 && got[3] >= lo && int(got[3]) <= int(lo)+n-1, "C02 after a restart new leases lie in the range")
		if got != nil {
			for _, o := range offs {
				vnd.Assert(got[3] != lo+o, "C02 after a restart a stored address is never given to another client")
				vnd.Assert(got[3] != lo+o, "C03 a restart re-reserves every stored binding, expired or not (none can be handed out a second time and stored twice)")
			}
		}
	} else {
		vnd.Assert(len(offs) == n, "C02 after a restart a new client is refused only when the range is full")
	}
	// every stored client gets its stored address back (whatever the length of its hardware address)
	hw := []net.HardwareAddr{{0x00, 0x11, 0x22, 0x33, 0x44, 0x55}, {0xaa, 0xbb, 0xcc, 0xdd, 0xee, 0xff, 0x00, 0x11}, {0x05}, {}}
	for i := 0; i < nrows; i++ {
		req2 := &dhcpv4.DHCPv4{OpCode: dhcpv4.OpcodeBootRequest, HWType: iana.HWTypeEthernet, ClientHWAddr: hw[i], Options: dhcpv4.Options{}}
		resp2 := &dhcpv4.DHCPv4{OpCode: dhcpv4.OpcodeBootReply, Options: dhcpv4.Options{}}
		r2, _ := h(req2, resp2)
		vnd.Assert(r2 != nil && r2.YourIPAddr.To4() != nil && r2.YourIPAddr.To4()[3] == lo+offs[i], "C02 after a restart a client is given the address it was first given")
	}
}
