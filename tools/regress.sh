#!/bin/bash
# usage: [REGRESS_FILTER=<regex>] tools/regress.sh [streams]   (development helper)
# Re-runs every kept seeded change (expect: the check of the property it breaks exits 1
# with a VIOLATION line) and every kept behaviour-preserving change (expect: exit 0)
# against scratch worktrees; prints one line each and a summary. /repo is not touched.
cd /verif
streams=${1:-3}
export GOFLAGS=-mod=mod GOPROXY=off GOSUMDB=off GOTOOLCHAIN=local
mkdir -p /tmp/rg; rm -f /tmp/rg/*.res
jobs=/tmp/rg/jobs.txt; : > $jobs
for d in seeded/C*/; do
  s=$(basename $d); p=$(python3 -c "import json;d=json.load(open('$d/meta.json'));print('SKIP' if d.get('obsolete') or d.get('not_detected') else d.get('breaks_property','${s:0:3}'))")
  [ "$p" = SKIP ] && continue   # a seed whose patch no longer applies (the code it changed was repaired) or that is recorded as not detected
  echo "seed $s $d/patch.diff $p" >> $jobs
done
python3 - >> $jobs <<'P'
import json,glob,os
for f in sorted(glob.glob('/verif/seeded/benign/*.json')):
    d=json.load(open(f)); n=d['benign_change']
    print('benign', n, f[:-5]+'.diff', ' '.join(d['checks_run_quick'].keys()))
P
one() { # kind name patch props...
  kind=$1; name=$2; patch=$3; shift 3
  sv=/tmp/rg/w_$name; rm -rf $sv; git -C /repo worktree add -q --detach $sv HEAD || return
  (cd $sv && git apply /verif/$patch 2>/dev/null || git apply $patch) || { echo "$kind $name PATCH-FAILED" > /tmp/rg/$name.res; git -C /repo worktree remove --force $sv; return; }
  out=/tmp/rg/o_$name; mkdir -p $out; r=""
  for p in "$@"; do
    VERIF_REPO=$sv VERIF_OUT=$out timeout 1500 bin/gosymex check -property $p -tier quick > /tmp/rg/$name.$p.log 2>&1; r="$r $p=$?"
  done
  echo "$kind $name$r" > /tmp/rg/$name.res
  git -C /repo worktree remove --force $sv; rm -rf $out
}
# optional selection: REGRESS_FILTER is an extended regular expression on "<kind> <name>"
if [ -n "${REGRESS_FILTER:-}" ]; then grep -E "$REGRESS_FILTER" $jobs > $jobs.sel; mv $jobs.sel $jobs; fi
i=0
while read kind name patch props; do
  i=$((i+1)); echo "$kind $name $patch $props" >> /tmp/rg/stream_$((i % streams)).txt
done < $jobs
for k in $(seq 0 $((streams-1))); do
  ( while read kind name patch props; do one $kind $name $patch $props; done < /tmp/rg/stream_$k.txt ) &
done
wait
rm -f /tmp/rg/stream_*.txt
cat /tmp/rg/*.res | sort
echo "--- summary"
echo "seeds caught by own check: $(grep -l '^seed' /tmp/rg/*.res | xargs cat | grep -c '=1')  of $(grep -c '^seed' $jobs)"
echo "benign with an alarm: $(grep -h '^benign' /tmp/rg/*.res | grep -c '=[1-9]')  of $(grep -c '^benign' $jobs)"
