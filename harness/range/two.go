//go:build verif

package rangeplugin

import (
	"net"

	"github.com/coredhcp/coredhcp/internal/vnd"
	"github.com/insomniacslk/dhcp/dhcpv4"
	"github.com/insomniacslk/dhcp/iana"
)

// VerifH_range_two (C02): two consecutive requests from an arbitrary state. The
// one-step harness speaks for histories through the invariant it re-establishes;
// anything the plugin keeps that the invariant does not mention (a cache, a
// "last client" shortcut) starts at zero in a constructed state and is only
// exercised by a second call. Second request: the same client again, or a client
// never seen before.
func VerifH_range_two() {
	w := makeRange()
	req1, resp1, _ := w.request()
	r1, _ := w.p.Handler4(req1, resp1)
	mid := append([]uint64(nil), w.alloc.VerifWords()...)
	var ip1 uint32
	has1 := false
	if r1 != nil {
		y := r1.YourIPAddr.To4()
		vnd.Assert(y != nil, "C02 yiaddr is an IPv4 address")
		if y == nil {
			return
		}
		ip1, has1 = u32of(y), true
	}
	same := vnd.Pick("second", 0, 1) == 0
	mac2 := w.mac
	if !same {
		mac2 = net.HardwareAddr{0x06, 0x5e, 0xc0, 0x4d, 0x00, 0x01}
		vnd.Assume(mac2.String() != w.key)
		if w.hasOther {
			vnd.Assume(mac2.String() != w.otherKey)
		}
	}
	req2 := &dhcpv4.DHCPv4{OpCode: dhcpv4.OpcodeBootRequest, HWType: iana.HWTypeEthernet, ClientHWAddr: mac2, Options: dhcpv4.Options{},
		ClientIPAddr: make(net.IP, 4), YourIPAddr: make(net.IP, 4), ServerIPAddr: make(net.IP, 4), GatewayIPAddr: make(net.IP, 4)}
	req2.Options[uint8(dhcpv4.OptionDHCPMessageType)] = []byte{byte(dhcpv4.MessageTypeRequest)}
	resp2 := &dhcpv4.DHCPv4{OpCode: dhcpv4.OpcodeBootReply, HWType: req2.HWType, ClientHWAddr: mac2, Options: dhcpv4.Options{},
		ClientIPAddr: make(net.IP, 4), YourIPAddr: make(net.IP, 4), ServerIPAddr: make(net.IP, 4), GatewayIPAddr: make(net.IP, 4)}
	resp2.Options[uint8(dhcpv4.OptionDHCPMessageType)] = []byte{byte(dhcpv4.MessageTypeAck)}

	r2, stop2 := w.p.Handler4(req2, resp2)

	end := w.start + uint32(w.n) - 1
	if same {
		vnd.Cover("same-client-again")
		if has1 {
			vnd.Assert(r2 != nil, "C02 a client that was just served keeps being served")
			if r2 == nil {
				return
			}
			y := r2.YourIPAddr.To4()
			vnd.Assert(y != nil && u32of(y) == ip1, "C02 a client is given the same address on its next request")
			post := w.alloc.VerifWords()
			vnd.Assert(sameWords(post, mid), "C02 serving the same client again allocates nothing")
		} else {
			vnd.Assert(r2 == nil && stop2, "C02 a client refused for lack of addresses stays refused while nothing is released")
		}
		return
	}
	vnd.Cover("new-client-next")
	if r2 == nil {
		vnd.Assert(stop2, "C02 nil response only with stop")
		vnd.Assert(allSet(mid, w.n), "C02 an unknown client is refused only when every address is bound")
		return
	}
	y := r2.YourIPAddr.To4()
	vnd.Assert(y != nil, "C02 yiaddr is an IPv4 address")
	if y == nil {
		return
	}
	v := u32of(y)
	vnd.Assert(vnd.And(v >= w.start, v <= end), "C02 the leased address lies inside the configured range")
	if has1 {
		vnd.Assert(v != ip1, "C02 two clients served one after the other never share an address")
	}
	if w.hasSelf {
		vnd.Assert(v != w.selfIP, "C02 no address is bound to two hardware addresses")
	}
	if w.hasOther {
		vnd.Assert(v != w.otherIP, "C02 no address is bound to two hardware addresses")
	}
	i := uint64(v - w.start)
	vnd.Assume(i < uint64(w.n))
	vnd.Assert(!hbit(mid, i), "C02 a new client gets an address nobody holds")
}
