//go:build verif

package dns

import (
	"net"

	"github.com/coredhcp/coredhcp/internal/vh"
	"github.com/coredhcp/coredhcp/internal/vnd"
	"github.com/insomniacslk/dhcp/dhcpv4"
	"github.com/insomniacslk/dhcp/dhcpv6"
)

// servers4 sets dnsServers4 to any configuration setup4 accepts: 1..3
// addresses, each in the 16-byte v4-mapped form net.ParseIP returns or in
// 4-byte form; want is the expected option payload.
func servers4() (want []byte) {
	n := vnd.Pick("nservers", 1, 3)
	dnsServers4 = nil
	for i := 0; i < n; i++ {
		b := vnd.Bytes("server", 4)
		want = append(want, b...)
		if vnd.Pick("form", 0, 1) == 0 {
			dnsServers4 = append(dnsServers4, net.IPv4(b[0], b[1], b[2], b[3]))
		} else {
			dnsServers4 = append(dnsServers4, net.IP(b))
		}
	}
	return
}

func VerifH_dns4() {
	want := servers4()
	req := vh.Req4()
	kind, codes := vh.PRL(req)
	resp, ec, ev := vh.Resp4(req, uint8(dhcpv4.OptionDomainNameServer))
	n0 := len(resp.Options)

	r, stop := Handler4(req, resp)

	vnd.Assert(r != nil || stop, "C13 a built-in handler returns a nil response only together with stop")
	vnd.Assert(r != nil || stop, "C01 no handler passes a nil response on to its successors (they would dereference it)")
	vnd.Assert(r == resp && !stop, "C17 dns4 passes the response on")
	entitled := kind != 2 || vh.Listed(codes, uint8(dhcpv4.OptionDomainNameServer))
	got, present := resp.Options[uint8(dhcpv4.OptionDomainNameServer)]
	if entitled {
		vnd.Cover("entitled")
		vnd.Assert(present && vh.BytesAre(got, want), "C17 dns4 emits exactly the configured servers as 4-byte addresses")
		vnd.Assert(vh.Untouched4(resp, req, ec, ev, n0+1), "C17 dns4 leaves everything else untouched")
	} else {
		vnd.Cover("not-entitled")
		vnd.Assert(!present, "C17 dns4 sends DNS servers only when requested or no list was sent")
		vnd.Assert(vh.Untouched4(resp, req, ec, ev, n0), "C17 dns4 leaves everything else untouched")
	}
	vnd.Observe("dns", got)
}

func VerifH_dns6() {
	n := vnd.Pick("nservers", 1, 2)
	dnsServers6 = nil
	var want []byte
	for i := 0; i < n; i++ {
		b := vnd.Bytes("server", 16)
		want = append(want, b...)
		dnsServers6 = append(dnsServers6, net.IP(b))
	}
	inner, msg := vh.Req6()
	kind, codes := vh.ORO(msg)
	req := vh.Relay(inner, vnd.Pick("relay", 0, 1))
	resp, extra := vh.Resp6(msg, uint16(dhcpv6.OptionDNSRecursiveNameServer))
	n0 := len(resp.Options.Options)

	r, stop := Handler6(req, resp)

	vnd.Assert(r != nil || stop, "C13 a built-in handler returns a nil response only together with stop")
	vnd.Assert(r != nil || stop, "C01 no handler passes a nil response on to its successors (they would dereference it)")
	vnd.Assert(r == dhcpv6.DHCPv6(resp) && !stop, "C17 dns6 passes the response on")
	entitled := kind == 1 && vh.Listed6(codes, uint16(dhcpv6.OptionDNSRecursiveNameServer))
	opts := resp.Options.Get(dhcpv6.OptionDNSRecursiveNameServer)
	if entitled {
		vnd.Cover("entitled")
		vnd.Assert(len(opts) == 1, "C17 dns6 emits the option exactly once")
		if len(opts) == 1 {
			vnd.Assert(vh.BytesAre(opts[0].ToBytes(), want), "C17 dns6 emits exactly the configured servers")
		}
		vnd.Assert(len(resp.Options.Options) == n0+1, "C17 dns6 leaves everything else untouched")
	} else {
		vnd.Cover("not-entitled")
		vnd.Assert(len(opts) == 0, "C17 dns6 sends DNS servers only when listed in the option request option")
		vnd.Assert(len(resp.Options.Options) == n0, "C17 dns6 leaves everything else untouched")
	}
	if extra != nil {
		vnd.Assert(resp.Options.GetOne(extra.OptionCode) == dhcpv6.Option(extra), "C17 dns6 keeps unrelated options")
	}
}
