//go:build verif

package file

import (
	"github.com/coredhcp/coredhcp/internal/vnd"
	"github.com/fsnotify/fsnotify"
)

// Autorefresh (C10): "a well-formed update eventually replaces the whole
// mapping while a malformed update leaves the previous mapping in force", for
// every sequence of up to three rewrites. The real setup starts the real
// refresh goroutine on a watcher whose event channel the harness owns; the
// goroutine's body runs under vnd.RunGoroutines (engine channel model:
// unbounded FIFO, a receive from an empty channel parks the goroutine).

var (
	watchCh chan fsnotify.Event
	watched []string
	readSeq [][]byte // what successive reads of the lease file return (rewrites between events)
	readN   int
)

func stubNewWatcher() (*fsnotify.Watcher, error) {
	watchCh = make(chan fsnotify.Event, 8)
	return &fsnotify.Watcher{Events: watchCh}, nil
}

func stubWatcherAdd(w *fsnotify.Watcher, name string) error {
	watched = append(watched, name)
	return nil
}

// stubReadSeq: the lease file as it is when the refresher gets to read it: the
// generation written before the last event the refresher has taken from the
// channel (later rewrites "have not happened yet"). Counting consumed events
// rather than reads keeps the oracle valid for a refresher that coalesces events.
func stubReadSeq(name string) ([]byte, error) {
	if name == "leases.txt" && readSeq != nil {
		readN++
		consumed := nEvents - len(watchCh)
		if watchCh == nil {
			consumed = 0
		}
		return readSeq[consumed], nil
	}
	return stubReadFile(name)
}

var nEvents int

type fileGen struct {
	text string
	good bool
	keys []string // canonical keys of a well-formed generation
}

func gens(v6 bool) []fileGen {
	ip := func(n string) string {
		if v6 {
			return "2001:db8::" + n
		}
		return "192.0.2." + n
	}
	return []fileGen{
		{"00:00:00:00:00:01 " + ip("1") + "\n", true, []string{"00:00:00:00:00:01"}},
		{"00:00:00:00:00:02 " + ip("2") + "\n00-00-00-00-00-03 " + ip("3") + "\n", true, []string{"00:00:00:00:00:02", "00:00:00:00:00:03"}},
		{"# nobody\n\n", true, nil},
		{"00:00:00:00:00:04 " + ip("4") + "\n00:00:00:00:00:05\n", false, nil},
	}
}

// VerifH_file_watch: the initial file, then 1..3 rewrites each announced by an
// event carrying the Write flag; afterwards the served mapping is that of the
// last well-formed generation.
func VerifH_file_watch() {
	v6 := vnd.Pick("proto", 0, 1) == 1
	g := gens(v6)
	watched, readN, watchCh, nEvents = nil, 0, nil, 0
	k := vnd.Pick("rewrites", 1, 3)
	cur := g[0]
	readSeq = [][]byte{[]byte(g[0].text)} // read by setup
	var kinds []int
	for i := 0; i < k; i++ {
		kind := vnd.Pick("rw"+string(rune('0'+i)), 0, 3)
		kinds = append(kinds, kind)
		readSeq = append(readSeq, []byte(g[kind].text))
		if g[kind].good {
			cur = g[kind]
		}
	}
	// the other protocol's table must not be touched by this instance
	installTable(!v6, nil)

	var err error
	if v6 {
		_, err = setup6("leases.txt", "autorefresh")
	} else {
		_, err = setup4("leases.txt", "autorefresh")
	}
	vnd.Assert(err == nil, "C10 a well-formed file loads")
	if err != nil {
		return
	}
	vnd.Assert(len(watched) == 1 && watched[0] == "leases.txt", "C10 autorefresh watches the lease file")
	nEvents = k
	for i := 0; i < k; i++ {
		op := fsnotify.Op(vnd.U32("evop"))
		vnd.Assume(op&fsnotify.Write != 0)
		watchCh <- fsnotify.Event{Name: "leases.txt", Op: op}
	}
	shareTables()
	vnd.RunGoroutines()
	vnd.Unshare()

	vnd.AssertEngine(vnd.HeldLocks() == 0, "C16 file refresher releases the write lock")
	vnd.Cover("refreshed")
	vnd.Assert(readN >= 2, "C10 a rewrite event makes the refresher read the file again")
	t := currentTable(v6)
	is := func(gen fileGen) bool {
		ok := gen.good && len(t) == len(gen.keys)
		for _, key := range gen.keys {
			ok = ok && t[key] != nil
		}
		return ok
	}
	last := g[kinds[k-1]]
	if last.good {
		vnd.Assert(is(last), "C10 a well-formed update replaces the whole mapping, whatever rewrites came before it")
	} else {
		some := is(g[0])
		for _, kind := range kinds {
			some = some || is(g[kind])
		}
		vnd.Assert(some, "C10 a malformed update leaves a previously loaded mapping in force")
		if k == 1 {
			vnd.Assert(is(g[0]), "C10 a malformed update leaves the previous mapping in force")
		}
	}
	_ = cur
	vnd.Assert(len(currentTable(!v6)) == 0, "C10 an instance's refresher touches only its own protocol's table")
}
