//go:build verif

package autoconfigure

import (
	"github.com/coredhcp/coredhcp/internal/vh"
	"github.com/coredhcp/coredhcp/internal/vnd"
	"github.com/insomniacslk/dhcp/dhcpv4"
)

func VerifH_autoconfigure4() {
	autoconfigure = dhcpv4.AutoConfiguration(vnd.Pick("cfg", 0, 1))
	req := vh.Req4()
	vh.PRL(req)
	// option 116 in the request: absent, one byte (any value), malformed (2 bytes)
	ackind := vnd.Pick("opt116", 0, 2)
	switch ackind {
	case 1:
		req.Options[uint8(dhcpv4.OptionAutoConfigure)] = vnd.Bytes("ac", 1)
	case 2:
		req.Options[uint8(dhcpv4.OptionAutoConfigure)] = vnd.Bytes("ac", 2)
	}
	resp, ec, ev := vh.Resp4(req, uint8(dhcpv4.OptionAutoConfigure))
	n0 := len(resp.Options)
	isOffer := resp.Options[uint8(dhcpv4.OptionDHCPMessageType)][0] == byte(dhcpv4.MessageTypeOffer)
	yi := resp.YourIPAddr
	unassigned := vnd.And(vnd.And(yi[0] == 0, yi[1] == 0), vnd.And(yi[2] == 0, yi[3] == 0))

	r, stop := Handler4(req, resp)

	vnd.Assert(r != nil || stop, "C13 a built-in handler returns a nil response only together with stop")
	vnd.Assert(r != nil || stop, "C01 no handler passes a nil response on to its successors (they would dereference it)")
	got, present := resp.Options[uint8(dhcpv4.OptionAutoConfigure)]
	if !isOffer || !unassigned {
		vnd.Cover("not-concerned")
		vnd.Assert(r == resp && !stop, "C17 autoconfigure ignores ACKs and offers that carry an address")
		vnd.Assert(!present && vh.Untouched4(resp, req, ec, ev, n0), "C17 autoconfigure leaves such replies untouched")
		return
	}
	if ackind == 1 {
		vnd.Cover("answered")
		vnd.Assert(r == resp && !stop, "C17 autoconfigure answers an address-less OFFER for clients that sent option 116")
		vnd.Assert(present && len(got) == 1 && got[0] == byte(autoconfigure), "C17 autoconfigure emits the configured value")
		vnd.Assert(vh.Untouched4(resp, req, ec, ev, n0+1), "C17 autoconfigure leaves everything else untouched")
	} else {
		vnd.Cover("dropped")
		vnd.Assert(r == nil && stop, "C17 autoconfigure drops an address-less OFFER for clients that did not send option 116")
	}
}
