package main

import (
	"bufio"
	"fmt"
	"io"
	"math/big"
	"os/exec"
	"strings"
	"time"
)

// Solver drives one persistent SMT solver process over the SMT-LIB2 text
// protocol with push/pop. Everything sent at each assertion level is kept so
// that the process can be killed on a wall-clock timeout and restarted.
type Solver struct {
	bin      string
	args     []string
	cmd      *exec.Cmd
	in       io.WriteCloser
	lines    chan string
	p        *Printer
	declared map[int]int // var term id -> depth
	depth    int
	levels   [][]string // text sent per level (index = depth)
	timeout  time.Duration
	Queries  int
	Sat      int
	Unsat    int
	Unknown  int
	Restarts int
	Errors   int
	Time     time.Duration
	MaxQuery time.Duration
	LastQuery time.Duration
	log      io.Writer
	dead     bool
}

func solverArgs(bin string) []string {
	if strings.Contains(bin, "cvc5") {
		return []string{"--incremental", "--lang", "smt2", "--produce-models"}
	}
	return []string{"-in"}
}

func NewSolver(bin string, timeout time.Duration) (*Solver, error) {
	s := &Solver{bin: bin, args: solverArgs(bin), declared: map[int]int{}, timeout: timeout, levels: [][]string{nil}}
	s.p = &Printer{defined: map[int]int{}, out: &strings.Builder{}}
	if err := s.start(); err != nil {
		return nil, err
	}
	return s, nil
}

func (s *Solver) start() error {
	cmd := exec.Command(s.bin, s.args...)
	in, err := cmd.StdinPipe()
	if err != nil {
		return err
	}
	out, err := cmd.StdoutPipe()
	if err != nil {
		return err
	}
	cmd.Stderr = cmd.Stdout
	if err := cmd.Start(); err != nil {
		return err
	}
	s.cmd, s.in = cmd, in
	lines := make(chan string, 64)
	s.lines = lines
	go func() {
		r := bufio.NewReaderSize(out, 1<<16)
		for {
			l, err := r.ReadString('\n')
			if l != "" {
				lines <- l
			}
			if err != nil {
				close(lines)
				return
			}
		}
	}()
	s.raw("(set-option :print-success false)\n")
	if !strings.Contains(s.bin, "cvc5") {
		s.raw(fmt.Sprintf("(set-option :timeout %d)\n", s.timeout.Milliseconds()))
	}
	s.dead = false
	return nil
}

func (s *Solver) raw(txt string) {
	if s.log != nil {
		io.WriteString(s.log, txt)
	}
	io.WriteString(s.in, txt)
}

// send records txt at the current level and writes it to the solver.
func (s *Solver) send(txt string) {
	s.levels[s.depth] = append(s.levels[s.depth], txt)
	s.raw(txt)
}

func (s *Solver) kill() {
	if s.cmd != nil && s.cmd.Process != nil {
		s.cmd.Process.Kill()
		s.in.Close()
		go s.cmd.Wait()
	}
	s.dead = true
}

func (s *Solver) restart() {
	s.kill()
	s.Restarts++
	if err := s.start(); err != nil {
		panic("cannot restart solver: " + err.Error())
	}
	for d, lv := range s.levels {
		if d > 0 {
			s.raw("(push 1)\n")
		}
		for _, t := range lv {
			s.raw(t)
		}
	}
}

func (s *Solver) Close() {
	if s.dead {
		return
	}
	s.raw("(exit)\n")
	s.in.Close()
	done := make(chan struct{})
	go func() { s.cmd.Wait(); close(done) }()
	select {
	case <-done:
	case <-time.After(2 * time.Second):
		s.cmd.Process.Kill()
	}
	s.dead = true
}

func (s *Solver) Push() {
	s.depth++
	s.p.depth = s.depth
	s.levels = append(s.levels, nil)
	s.raw("(push 1)\n")
}

func (s *Solver) Pop() {
	for id, d := range s.p.defined {
		if d >= s.depth {
			delete(s.p.defined, id)
		}
	}
	for id, d := range s.declared {
		if d >= s.depth {
			delete(s.declared, id)
		}
	}
	s.levels = s.levels[:s.depth]
	s.depth--
	s.p.depth = s.depth
	s.raw("(pop 1)\n")
}

func (s *Solver) declVars(t *Term, seen map[int]bool) {
	if seen[t.id] {
		return
	}
	seen[t.id] = true
	if t.Op == "var" {
		if _, ok := s.declared[t.id]; !ok {
			s.send(fmt.Sprintf("(declare-const %s %s)\n", t.Name, sortStr(t.W)))
			s.declared[t.id] = s.depth
		}
		return
	}
	if _, ok := s.p.defined[t.id]; ok {
		return
	}
	for _, a := range t.Args {
		s.declVars(a, seen)
	}
}

func (s *Solver) Assert(t *Term) {
	s.declVars(t, map[int]bool{})
	s.p.out.Reset()
	r := s.p.ref(t)
	s.send(s.p.out.String())
	s.send(fmt.Sprintf("(assert %s)\n", r))
}

// readLine waits for one line of solver output, or "" on timeout/EOF.
func (s *Solver) readLine(limit time.Duration) (string, bool) {
	select {
	case l, ok := <-s.lines:
		if !ok {
			return "", false
		}
		return l, true
	case <-time.After(limit):
		return "", false
	}
}

// Check returns "sat", "unsat" or "unknown".
func (s *Solver) Check() string {
	t0 := time.Now()
	s.raw("(check-sat)\n")
	var line string
	for {
		l, ok := s.readLine(s.timeout + s.timeout/2 + time.Second)
		if !ok {
			// wall-clock limit exceeded or solver died: restart with the same stack
			s.restart()
			line = "unknown"
			break
		}
		l = strings.TrimSpace(l)
		if l == "" {
			continue
		}
		line = l
		break
	}
	d := time.Since(t0)
	s.LastQuery = d
	s.Time += d
	if d > s.MaxQuery {
		s.MaxQuery = d
	}
	s.Queries++
	switch line {
	case "sat":
		s.Sat++
	case "unsat":
		s.Unsat++
	default:
		s.Unknown++
		if strings.HasPrefix(line, "(error") {
			s.Errors++
			fmt.Println("SOLVER ERROR:", line)
		}
		return "unknown"
	}
	return line
}

// CheckWith asks whether the current context plus extra is satisfiable.
func (s *Solver) CheckWith(extra *Term) string {
	if extra.IsTrue() {
		return s.Check()
	}
	if extra.IsFalse() {
		return "unsat"
	}
	s.Push()
	s.Assert(extra)
	r := s.Check()
	s.Pop()
	return r
}

// Model returns values of the given variables after a sat answer (must be called
// in the same context that was checked).
func (s *Solver) Model(vars []*Term) map[string]*big.Int {
	res := map[string]*big.Int{}
	var names []string
	seen := map[string]bool{}
	for _, v := range vars {
		if _, ok := s.declared[v.id]; ok && !seen[v.Name] {
			names = append(names, v.Name)
			seen[v.Name] = true
		}
	}
	// chunk to keep lines short
	for len(names) > 0 {
		n := len(names)
		if n > 200 {
			n = 200
		}
		s.modelChunk(names[:n], res)
		names = names[n:]
	}
	return res
}

func (s *Solver) modelChunk(names []string, res map[string]*big.Int) {
	s.raw("(get-value (" + strings.Join(names, " ") + "))\n")
	depth := 0
	var sb strings.Builder
	for {
		line, ok := s.readLine(20 * time.Second)
		if !ok {
			s.restart()
			return
		}
		sb.WriteString(line)
		depth += strings.Count(line, "(") - strings.Count(line, ")")
		if depth <= 0 && strings.TrimSpace(sb.String()) != "" {
			break
		}
	}
	txt := sb.String()
	if strings.HasPrefix(strings.TrimSpace(txt), "(error") {
		s.Errors++
		return
	}
	for _, n := range names {
		i := strings.Index(txt, "("+n+" ")
		if i < 0 {
			continue
		}
		rest := strings.TrimSpace(txt[i+len(n)+2:])
		var v big.Int
		switch {
		case strings.HasPrefix(rest, "#x"):
			j := strings.IndexAny(rest, ")\n ")
			v.SetString(rest[2:j], 16)
		case strings.HasPrefix(rest, "#b"):
			j := strings.IndexAny(rest, ")\n ")
			v.SetString(rest[2:j], 2)
		case strings.HasPrefix(rest, "true"):
			v.SetInt64(1)
		case strings.HasPrefix(rest, "false"):
			v.SetInt64(0)
		case strings.HasPrefix(rest, "(_ bv"):
			j := strings.Index(rest[5:], " ")
			v.SetString(rest[5:5+j], 10)
		}
		res[n] = &v
	}
}

// oneShot decides a set of assertions in a fresh process of another solver
// (used for second-solver agreement on final verdict queries).
func oneShot(bin string, text string, limit time.Duration) string {
	args := []string{"-in"}
	if strings.Contains(bin, "cvc5") {
		args = []string{"--lang", "smt2", fmt.Sprintf("--tlimit=%d", limit.Milliseconds())}
	} else {
		args = append(args, fmt.Sprintf("-T:%d", int(limit.Seconds())+1))
	}
	cmd := exec.Command(bin, args...)
	cmd.Stdin = strings.NewReader(text)
	done := make(chan string, 1)
	go func() {
		out, _ := cmd.CombinedOutput()
		done <- string(out)
	}()
	select {
	case out := <-done:
		for _, l := range strings.Split(out, "\n") {
			l = strings.TrimSpace(l)
			if l == "sat" || l == "unsat" {
				return l
			}
		}
		return "unknown"
	case <-time.After(limit + 5*time.Second):
		if cmd.Process != nil {
			cmd.Process.Kill()
		}
		return "unknown"
	}
}

// flatText renders the whole current assertion stack as one SMT-LIB script
// (without push/pop) followed by extra and (check-sat).
func (s *Solver) flatText(extra string) string {
	var sb strings.Builder
	for _, lv := range s.levels {
		for _, t := range lv {
			sb.WriteString(t)
		}
	}
	sb.WriteString(extra)
	sb.WriteString("(check-sat)\n")
	return sb.String()
}
