#!/usr/bin/env python3
"""Regenerates /verif/MANIFEST.json from the table below (claimed checks) and properties.jsonl."""
import json
TECH = "solver-based bounded symbolic execution of the real code (go/ssa -> SMT bit-vectors; z3 5.1 primary, cvc5 second opinion; native replay of every counterexample)"
NOTE_COMMON = ("Trusted: go/ssa lowering (x/tools v0.29.0), gosymex instruction semantics and state merging (validated every run by replaying solver-chosen inputs "
               "natively and comparing observations), z3 5.1.0 (thorough tier: every verdict query re-decided by cvc5). Stubs: logging is a no-op, sync.Mutex is a held/not-held model. ")
CLAIMS = {
 "C20": ("Offset/AddPrefixes executed symbolically with base, x (2x16 bytes) and n (64 bits) as solver variables and p case-split; every assertion is an SMT query against a 128/256-bit bit-vector reference. The unit has no loops, so inside the p grid the claim covers all values; quick = 12 boundary values of p, thorough = all 129.",
         "Inputs are 16-byte addresses. bytes.Compare modelled by its contract.", "6.20"),
 "C04": ("One Allocate (and the constructors) from an ARBITRARY representation-invariant allocator state (symbolic bitmap words, symbolic range start / pool base, every hint form): the returned block was free and exactly its bit becomes set; index<->address is checked against an independent 128-bit reference, so distinct indices are disjoint blocks. Histories of any length follow by induction on this step (DESIGN 5.1); concurrency by the lock discipline of C16.",
         "Pools up to 2^8 blocks (quick: word-boundary sizes 1,2,3,63,64,65 for IPv4; (L,order) grid for IPv6), thorough up to 512 / all L. Larger pools repeat the same word loop (unwinding bound, not a proof). IPv6 pools inside ::ffff:0:0/96 excluded.", "5.1, 6.4"),
 "C05": ("Same inductive step harnesses: result in pool, aligned, /32 resp. max(page, IPv6 hint length); fails iff every block outstanding, with ErrNoAddrAvail and no state change; bitmap length never changes; constructors give exactly N free blocks.",
         "Same bounds as C04.", "5.1, 6.5"),
 "C06": ("One Free from an arbitrary valid state with an arbitrary argument (IPv4: nil/4/16/5-byte forms; IPv6: any 16-byte address with a canonical mask >= allocation length, i.e. anywhere inside, below or above the pool): succeeds iff the named block is outstanding and then clears exactly that bit, otherwise errors and changes nothing.",
         "Same bounds as C04. Malformed IPNet values (nil IP with mask, non-canonical masks) and super-prefixes spanning several blocks are outside C06's quantifier.", "5.1, 6.6"),
 "C07": ("Same Allocate step: whenever the hint (4-byte, v4-mapped or 16-byte, anywhere inside a block) names a block whose bit is clear in the symbolic pre-state, the returned block is exactly that block.",
         "Same bounds as C04.", "5.1, 6.7"),
 "C14": ("serverid.Handler6/Handler4 executed on structurally built requests: message-type byte symbolic, Server-ID absent or any DUID kind (LLT/EN/LL/UUID/opaque, symbolic fields, payload length cfg-1..cfg+1 or empty), relay depth 0..2, configured id = any value setup accepts; oracle = RFC 8415 s16 table written independently. v4: opcode, siaddr (nil/4/16-byte), option 54 (absent/4/3 bytes) symbolic. Setup functions run on concrete argument vectors to tie the accepted shapes to the generator.",
         "Requests are built as parsed structures, not from wire bytes (the wire layer is C01).", "6.14"),
 "C17": ("Every option plugin handler (dns 4/6, mtu, netmask, router, searchdomains 4/6, staticroute, lease_time, ipv6only, autoconfigure, nbp 4/6, sleep 4/6) executed with its package state set to a symbolic accepted configuration and a structurally built request (parameter request list absent / zero-length / 1..3 symbolic codes; ORO likewise); oracle per plugin = entitlement predicate + independently written wire encoding; asserted: option present iff entitled, bytes equal, exactly once, every other option and header field untouched, stop flag.",
         "Shape bounds: 1..3 addresses, 1..2 routes (all prefix lengths), 1..2 domains of 1..2 two-letter labels, 3-4 byte strings; durations concrete per case. url.Parse of the nbp argument is configuration side (C19).", "6.17"),
 "C08": ("One prefix.Handler.Handle step (real bitmap allocator underneath) from an arbitrary state satisfying the plugin invariant: symbolic pool base, symbolic bitmap (arbitrary superset of the modelled leases), 0..2 leases of the requesting client, one lease of another client, symbolic DUID of 4 kinds, symbolic clock; request with 0..2 IA_PDs x 0..2 hints of 8 parser-producible kinds (nil prefix, length-only, own, foreign, any address, longer, nil mask, odd length), relay depth 0..2. Asserted per reply: one IA_PD per IA_PD in order with same IAID, prefix-or-NoPrefixAvail, in pool, aligned, length >= allocation size, 0 < preferred <= valid <= 1h, never the foreign block; invariant re-established.",
         "Pool geometries (L,page) in {(56,64),(60,62),(62,66),(64,64),(120,124),(0,3)}; quick uses the 4- and 8-block pools. Lifetimes checked as time.Duration values (wire division by 1e9 is out of solver reach). Clock assumption T1.", "5.2, 6.8"),
 "C09": ("Same step harness: a request for exactly a held prefix, or a hint-less IA_PD (no IAPrefix / nil prefix), from a client that holds leases is answered with the held prefix, consumes no block (bitmap unchanged) and records nothing new; every delegated prefix is present in the client's record afterwards however many were delegated; known leases are kept and their expiry never moves backwards.",
         "Same bounds as C08.", "5.2, 6.9"),
 "C02": ("One range.PluginState.Handler4 step (real IPv4 bitmap allocator underneath, database/sql replaced by a table model) from an arbitrary state satisfying the plugin invariant: symbolic range start, symbolic bitmap (arbitrary superset of the modelled bindings), optional binding of the requesting client (4- or 16-byte stored form), one binding of another client, chaddr of length 0..16 with symbolic bytes, hostname option, DISCOVER/REQUEST, symbolic clock. Asserted: address in range; equals the client's existing address; differs from the other client's; option 51 = configured lease time; refusal only when unknown client and every bit set, changing nothing; known clients served when full; invariant and store row re-established.",
         "Ranges of 2..65 (quick) / up to 256 (thorough) addresses inside one /24; start's high octets symbolic within a decimal-digit class. Store model in harness/range/dbmodel.go (validated natively against the real SQLite on every replay). Concurrency via C16's lock discipline.", "5.2, 6.2"),
 "C03": ("Same step harness (store row = binding, written before return, stored expiry >= end of the promised lease) plus: the real loadRecords run on the store the real saveIPAddress wrote (bindings restored exactly, nothing lost/duplicated), the hardware-address text for every length 0..16 and all byte values through the real loader, and the address text for all IPv4 addresses (81 digit-count classes) through net.IP.String / net.ParseIP.",
         "SQLite/cgo itself is not encoded (file format, journaling, mid-write crash states): crash points are request boundaries; DB write faults are outside the quantifier. NUMERIC affinity modelled for the texts the plugin writes and validated natively.", "6.3"),
}
props=[json.loads(l) for l in open('/verif/properties.jsonl')]
NA = {}
try:
    NA = json.load(open('/verif/tools/not_applicable.json'))
except Exception:
    pass
checks=[]
for pid,(text,note,ref) in sorted(CLAIMS.items()):
    checks.append({"property_id":pid,"quick_cmd":"bin/gosymex check -property %s -tier quick"%pid,"thorough_cmd":"bin/gosymex check -property %s -tier thorough"%pid,
      "evidence_file":"/verif/evidence/%s.json"%pid,"replay_cmd_template":"bin/gosymex replay {path}","engine":"gosymex",
      "level_claimed":{"category":"model_checking","text":text,"design_ref":"DESIGN.md "+ref},"level_note":NOTE_COMMON+note,"technique":TECH})
na=[{"property_id":p["id"],"reason":NA.get(p["id"],"check not built yet in this session (work in progress; plan in DESIGN.md section 6)")} for p in props if p["id"] not in CLAIMS]
m={"version":1,
 "setup_cmd":"cd /verif/engine && GOFLAGS=-mod=vendor GOPROXY=off GOSUMDB=off GOTOOLCHAIN=local go build -o ../bin/gosymex . && cd /verif && bin/gosymex selftest",
 "hooks":{"guard":"verif","enable":"no hooks in /repo: harness files under /verif/harness carry //go:build verif and are injected by overlay (go/packages Overlay for the encoder, go test -tags verif -overlay for native replay)","baseline_off_cmd":"cd /repo && GOFLAGS=-mod=mod go test -vet=off -count=1 ./...","source_commits":[],"add_only":True},
 "engines":[{"name":"gosymex","path":"/verif/engine","serves_properties":sorted(CLAIMS),"kind_free_text":"path-exploring symbolic executor over go/ssa with state merging at function returns; SMT-LIB2 to z3 5.1 (primary) and cvc5 (second opinion); native replay of every counterexample"}],
 "checks":checks,"not_applicable":na,
 "notes":"Exit codes: 0 held, 1 VIOLATION, 2 harness does not build against the tree, 3 inconclusive (solver unknown, unwinding/concretisation cap, unsupported construct, vacuous cover point, encoder mismatch)."}
json.dump(m,open('/verif/MANIFEST.json','w'),indent=1)
print("claimed:",sorted(CLAIMS))
