#!/bin/bash
# usage: tools/benigntest.sh <patch-file> <name> <property> [<property>...]
# A behaviour-preserving change: confirm it builds and passes the repo tests in a
# scratch worktree, run the quick checks against that worktree (VERIF_REPO) (every one must exit 0
# without a VIOLATION line). Result in /verif/seeded/benign/<name>.json
set -u
patch=$1; name=$2; shift 2
export GOFLAGS=-mod=mod GOPROXY=off GOSUMDB=off GOTOOLCHAIN=local
out=/verif/seeded/benign
mkdir -p $out
cp $patch $out/$name.diff
sv=/tmp/sv/$name
rm -rf $sv; git -C /repo worktree prune; git -C /repo worktree add -q $sv HEAD || exit 2
(cd $sv && git apply $out/$name.diff) || { echo "patch does not apply"; git -C /repo worktree remove --force $sv; exit 2; }
(cd $sv && go build ./... > /tmp/sv/$name.build.log 2>&1) && res_build=ok || res_build=FAIL
(cd $sv && go test -vet=off -count=1 ./... > /tmp/sv/$name.tests.log 2>&1) && res_tests=pass || res_tests=FAIL
echo "confirm $name: build=$res_build existing-tests=$res_tests"
export VERIF_REPO=$sv VERIF_OUT=/tmp/sv/out_$name
mkdir -p $VERIF_OUT
results=""
for p in "$@"; do
  o=$(cd /verif && timeout 1500 bin/gosymex check -property $p -tier quick 2>&1); rc=$?
  v=$(echo "$o" | grep -c '^VIOLATION')
  echo "check $p: exit=$rc violations=$v :: $(echo "$o" | grep -A1 '^VIOLATION' | grep 'label=' | head -2 | sed 's/.*label=\("[^"]*"\).*native=\(.*\)/\1 native=\2/' | cut -c1-200 | tr '\n' ';')"
  echo "$o" | grep '^INCONCLUSIVE\|^ENCODER\|^HARNESS\|^VACUOUS' | head -4 | cut -c1-220
  results="$results\"$p\":{\"exit\":$rc,\"violation_lines\":$v},"
done
git -C /repo worktree remove --force $sv; rm -rf $VERIF_OUT
cat > $out/$name.json <<EOM
{"benign_change":"$name","confirmed":{"build_with_change":"$res_build","existing_tests_with_change":"$res_tests"},
 "checks_run_quick":{${results%,}},"ran":"tools/benigntest.sh at $(date -u +%FT%TZ) against /repo $(git -C /repo log --format=%h -1)"}
EOM
