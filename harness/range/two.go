//go:build verif

package rangeplugin

import (
	"net"
	"time"

	"github.com/coredhcp/coredhcp/internal/vnd"
	"github.com/insomniacslk/dhcp/dhcpv4"
	"github.com/insomniacslk/dhcp/iana"
)

// VerifH_range_two (C02): two consecutive requests from an arbitrary state. The
// one-step harness speaks for histories through the invariant it re-establishes;
// anything the plugin keeps that the invariant does not mention (a cache, a
// "last client" shortcut) starts at zero in a constructed state and is only
// exercised by a second call. Second request: the same client again, or a client
// never seen before.
func VerifH_range_two() {
	// the state is either an arbitrary one built by the harness or the one the real
	// setupRange leaves on an empty store (range 10.200.150.101-103): what setup
	// keeps besides the range is only ever seen through the handler it returns
	var w *rworld
	handle := func(req, resp *dhcpv4.DHCPv4) (*dhcpv4.DHCPv4, bool) { return nil, true }
	if vnd.Pick("viasetup", 0, 1) == 1 {
		dbReset()
		h, err := setupRange("leases.sqlite3", "10.200.150.101", "10.200.150.103", "1h")
		vnd.Assert(err == nil && h != nil, "C02 a valid range is accepted")
		if err != nil || h == nil {
			return
		}
		w = &rworld{n: 3, start: 10<<24 | 200<<16 | 150<<8 | 101, lease: time.Hour, mac: net.HardwareAddr(vnd.Bytes("chaddr", 6))}
		w.key = w.mac.String()
		handle = h
	} else {
		w = makeRange()
		handle = w.p.Handler4
	}
	words := func() []uint64 {
		if w.alloc == nil {
			return nil
		}
		return append([]uint64(nil), w.alloc.VerifWords()...)
	}
	req1, resp1, _ := w.request()
	r1, _ := handle(req1, resp1)
	mid := words()
	var ip1 uint32
	has1 := false
	if r1 != nil {
		y := r1.YourIPAddr.To4()
		vnd.Assert(y != nil, "C02 yiaddr is an IPv4 address")
		if y == nil {
			return
		}
		ip1, has1 = u32of(y), true
	}
	same := vnd.Pick("second", 0, 1) == 0
	mac2 := w.mac
	if !same {
		mac2 = net.HardwareAddr{0x06, 0x5e, 0xc0, 0x4d, 0x00, 0x01}
		vnd.Assume(mac2.String() != w.key)
		if w.hasOther {
			vnd.Assume(mac2.String() != w.otherKey)
		}
	}
	req2 := &dhcpv4.DHCPv4{OpCode: dhcpv4.OpcodeBootRequest, HWType: iana.HWTypeEthernet, ClientHWAddr: mac2, Options: dhcpv4.Options{},
		ClientIPAddr: make(net.IP, 4), YourIPAddr: make(net.IP, 4), ServerIPAddr: make(net.IP, 4), GatewayIPAddr: make(net.IP, 4)}
	req2.Options[uint8(dhcpv4.OptionDHCPMessageType)] = []byte{byte(dhcpv4.MessageTypeRequest)}
	resp2 := &dhcpv4.DHCPv4{OpCode: dhcpv4.OpcodeBootReply, HWType: req2.HWType, ClientHWAddr: mac2, Options: dhcpv4.Options{},
		ClientIPAddr: make(net.IP, 4), YourIPAddr: make(net.IP, 4), ServerIPAddr: make(net.IP, 4), GatewayIPAddr: make(net.IP, 4)}
	resp2.Options[uint8(dhcpv4.OptionDHCPMessageType)] = []byte{byte(dhcpv4.MessageTypeAck)}

	r2, stop2 := handle(req2, resp2)

	end := w.start + uint32(w.n) - 1
	if same {
		vnd.Cover("same-client-again")
		if has1 {
			vnd.Assert(r2 != nil, "C02 a client that was just served keeps being served")
			if r2 == nil {
				return
			}
			y := r2.YourIPAddr.To4()
			vnd.Assert(y != nil && u32of(y) == ip1, "C02 a client is given the same address on its next request")
			if mid != nil {
				vnd.Assert(sameWords(words(), mid), "C02 serving the same client again allocates nothing")
			}
		} else {
			vnd.Assert(r2 == nil && stop2, "C02 a client refused for lack of addresses stays refused while nothing is released")
		}
		return
	}
	vnd.Cover("new-client-next")
	if r2 == nil {
		vnd.Assert(stop2, "C02 nil response only with stop")
		if mid != nil {
			vnd.Assert(allSet(mid, w.n), "C02 an unknown client is refused only when every address is bound")
		} else {
			vnd.Assert(false, "C02 an unknown client is refused only when every address is bound")
		}
		return
	}
	y := r2.YourIPAddr.To4()
	vnd.Assert(y != nil, "C02 yiaddr is an IPv4 address")
	if y == nil {
		return
	}
	v := u32of(y)
	vnd.Assert(vnd.And(v >= w.start, v <= end), "C02 the leased address lies inside the configured range")
	if has1 {
		vnd.Assert(v != ip1, "C02 two clients served one after the other never share an address")
	}
	if w.hasSelf {
		vnd.Assert(v != w.selfIP, "C02 no address is bound to two hardware addresses")
	}
	if w.hasOther {
		vnd.Assert(v != w.otherIP, "C02 no address is bound to two hardware addresses")
	}
	i := uint64(v - w.start)
	vnd.Assume(i < uint64(w.n))
	if mid != nil {
		vnd.Assert(!hbit(mid, i), "C02 a new client gets an address nobody holds")
	}
}
