//go:build verif

package mtu

import (
	"github.com/coredhcp/coredhcp/internal/vh"
	"github.com/coredhcp/coredhcp/internal/vnd"
	"github.com/insomniacslk/dhcp/dhcpv4"
)

func VerifH_mtu4() {
	mtu = vnd.Range("mtu", 0, 65535)
	req := vh.Req4()
	kind, codes := vh.PRL(req)
	resp, ec, ev := vh.Resp4(req, uint8(dhcpv4.OptionInterfaceMTU))
	n0 := len(resp.Options)

	r, stop := Handler4(req, resp)

	vnd.Assert(r != nil || stop, "C13 a built-in handler returns a nil response only together with stop")
	vnd.Assert(r != nil || stop, "C01 no handler passes a nil response on to its successors (they would dereference it)")
	vnd.Assert(r == resp && !stop, "C17 mtu passes the response on")
	entitled := kind != 2 || vh.Listed(codes, uint8(dhcpv4.OptionInterfaceMTU))
	got, present := resp.Options[uint8(dhcpv4.OptionInterfaceMTU)]
	if entitled {
		vnd.Cover("entitled")
		vnd.Assert(present && len(got) == 2, "C17 mtu emits a 2-byte value")
		if len(got) == 2 {
			vnd.Assert(int(got[0])<<8|int(got[1]) == mtu, "C17 mtu emits exactly the configured MTU")
		}
		vnd.Assert(vh.Untouched4(resp, req, ec, ev, n0+1), "C17 mtu leaves everything else untouched")
	} else {
		vnd.Cover("not-entitled")
		vnd.Assert(!present, "C17 mtu is sent only when requested or no list was sent")
		vnd.Assert(vh.Untouched4(resp, req, ec, ev, n0), "C17 mtu leaves everything else untouched")
	}
	vnd.Observe("mtu", got)
}
