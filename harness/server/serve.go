//go:build verif

package server

import (
	"net"
	"sync"

	"github.com/coredhcp/coredhcp/internal/vnd"
	"golang.org/x/net/ipv4"
	"golang.org/x/net/ipv6"
)

// The receive loops (C16, L4). A buffer comes back from the pool with whatever
// length its previous user left it (the handlers return b[:n]); the loop must
// hand every read a full-size buffer, otherwise a datagram longer than the one
// the buffer carried before is silently truncated - which datagram is hit
// depends on the schedule.

var (
	readCalls int
	readLen   int
)

func stubPoolGet(p *sync.Pool) any {
	// lengths are case-split (the engine keeps slice bounds concrete): empty, a
	// short datagram, a typical one, one byte short of full, full
	k := []int{0, 1, 300, MaxDatagram - 1, MaxDatagram}[vnd.Pick("recycledlen", 0, 4)]
	b := make([]byte, MaxDatagram)
	b = b[:k]
	return &b
}

func (l *listener4) ReadFrom(b []byte) (int, *ipv4.ControlMessage, net.Addr, error) {
	readCalls++
	if readCalls > 1 {
		return 0, nil, nil, net.ErrClosed
	}
	readLen = len(b)
	return 0, nil, &net.UDPAddr{IP: net.IP{192, 0, 2, 1}, Port: 68}, nil
}

func (l *listener6) ReadFrom(b []byte) (int, *ipv6.ControlMessage, net.Addr, error) {
	readCalls++
	if readCalls > 1 {
		return 0, nil, nil, net.ErrClosed
	}
	readLen = len(b)
	return 0, nil, &net.UDPAddr{IP: net.ParseIP("2001:db8::1"), Port: 546}, nil
}

func (l *listener4) LocalAddr() net.Addr { return &net.UDPAddr{} }
func (l *listener6) LocalAddr() net.Addr { return &net.UDPAddr{} }

// VerifH_serve: one iteration of the real Serve loop on a recycled buffer of any length.
func VerifH_serve() {
	readCalls, readLen = 0, -1
	var err error
	if vnd.Pick("proto", 0, 1) == 0 {
		err = (&listener4{}).Serve()
	} else {
		err = (&listener6{}).Serve()
	}
	vnd.Cover("served")
	vnd.Assert(readCalls == 2, "C16 the receive loop keeps reading after a datagram")
	vnd.Assert(err == nil, "C16 the receive loop ends cleanly when the socket is closed")
	vnd.Assert(readLen == MaxDatagram, "C16 every receive gets a full-size buffer, whatever length the recycled buffer was left with")
}
