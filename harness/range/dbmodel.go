//go:build verif

package rangeplugin

import (
	"database/sql"
	"errors"

	"github.com/coredhcp/coredhcp/internal/vnd"
)

// Store model used by the symbolic engine in place of database/sql + SQLite
// (cgo, not encodable). It implements what the plugin's two statements do on
// the table leases4(mac, ip, expiry, hostname, primary key (mac, ip)):
//   insert or replace ... values (?, ?, ?, ?)   and   select mac, ip, expiry, hostname
// The columns are declared "string" (NUMERIC affinity): SQLite stores TEXT that
// is a well-formed integer literal as an INTEGER and returns it in canonical
// decimal form. For the values the plugin writes this only concerns a 1-byte
// hardware address whose two hex digits are decimal digits ("05" comes back as
// "5"); colon-separated MACs and dotted quads are not numeric literals.
// Natively the real SQLite is used (dbOpen), so the model itself is validated
// by every native replay.
type dbRow struct {
	mac, ip  string
	expiry   int
	hostname string
}

var (
	dbRows    []dbRow
	dbCursor  int
	dbWrites  int
	dbFailing bool // when set, every write fails (the "dbfail" case of the step harness)
)

func dbReset() { dbRows, dbCursor, dbWrites, dbFailing = nil, -1, 0, false }

// affinity applies NUMERIC affinity to a MAC string.
func affinity(s string) string {
	if len(s) == 2 && s[0] >= '0' && s[0] <= '9' && s[1] >= '0' && s[1] <= '9' {
		if s[0] == '0' {
			return s[1:]
		}
	}
	return s
}

func stubDBPrepare(db *sql.DB, query string) (*sql.Stmt, error) {
	if db == nil {
		panic("nil *sql.DB")
	}
	return new(sql.Stmt), nil
}

func stubStmtClose(s *sql.Stmt) error { return nil }

func stubStmtExec(s *sql.Stmt, args ...any) (sql.Result, error) {
	if dbFailing {
		return nil, errors.New("disk I/O error")
	}
	row := dbRow{mac: affinity(args[0].(string)), ip: args[1].(string), expiry: args[2].(int), hostname: args[3].(string)}
	dbWrites++
	for i := range dbRows {
		if dbRows[i].mac == row.mac && dbRows[i].ip == row.ip {
			dbRows[i] = row
			return nil, nil
		}
	}
	dbRows = append(dbRows, row)
	return nil, nil
}

func stubDBQuery(db *sql.DB, query string, args ...any) (*sql.Rows, error) {
	dbCursor = -1
	return new(sql.Rows), nil
}

func stubDBExec(db *sql.DB, query string, args ...any) (sql.Result, error) { return nil, nil }

func stubRowsNext(r *sql.Rows) bool {
	dbCursor++
	return dbCursor < len(dbRows)
}

func stubRowsScan(r *sql.Rows, dest ...any) error {
	row := dbRows[dbCursor]
	*(dest[0].(*string)) = row.mac
	*(dest[1].(*string)) = row.ip
	*(dest[2].(*int)) = row.expiry
	*(dest[3].(*string)) = row.hostname
	return nil
}

func stubRowsErr(r *sql.Rows) error   { return nil }
func stubRowsClose(r *sql.Rows) error { return nil }

func stubSQLOpen(driver, dsn string) (*sql.DB, error) { return new(sql.DB), nil }

// dbOpen returns the handle the plugin state uses: the model's dummy handle in
// the engine, a private in-memory SQLite database natively.
func dbOpen() *sql.DB {
	if vnd.Symbolic() {
		return new(sql.DB)
	}
	db, err := loadDB(":memory:")
	if err != nil {
		panic(err)
	}
	db.SetMaxOpenConns(1)
	return db
}

// dbInsert places a row in the store (pre-state construction).
func dbInsert(db *sql.DB, row dbRow) {
	if vnd.Symbolic() {
		row.mac = affinity(row.mac)
		dbRows = append(dbRows, row)
		return
	}
	if _, err := db.Exec(`insert or replace into leases4(mac, ip, expiry, hostname) values (?, ?, ?, ?)`, row.mac, row.ip, row.expiry, row.hostname); err != nil {
		panic(err)
	}
}

// dbAll returns the rows currently in the store.
func dbAll(db *sql.DB) []dbRow {
	if vnd.Symbolic() {
		return dbRows
	}
	rows, err := db.Query("select mac, ip, expiry, hostname from leases4")
	if err != nil {
		panic(err)
	}
	defer rows.Close()
	var out []dbRow
	for rows.Next() {
		var r dbRow
		if err := rows.Scan(&r.mac, &r.ip, &r.expiry, &r.hostname); err != nil {
			panic(err)
		}
		out = append(out, r)
	}
	return out
}
