//go:build verif

package prefix

import (
	"net"
	"time"

	"github.com/coredhcp/coredhcp/internal/vnd"
	"github.com/coredhcp/coredhcp/plugins/allocators/bitmap"
	"github.com/insomniacslk/dhcp/dhcpv6"
	dhcpIana "github.com/insomniacslk/dhcp/iana"
)

type geom struct{ L, page int }

var geoms = []geom{{56, 64}, {60, 62}, {62, 66}, {64, 64}, {120, 124}, {0, 3}}

func lowMask(bits int) vnd.U128 {
	all := vnd.U128{Hi: ^uint64(0), Lo: ^uint64(0)}
	return vnd.U128Lshr(all, uint(128-bits))
}

func hbit(words []uint64, i uint64) bool { return (words[i>>6]>>(i&63))&1 == 1 }

// blockOf returns (in pool, block index) of a 16-byte address.
func blockOf(ip net.IP, base vnd.U128, g geom) (bool, uint64) {
	a := vnd.U128From(ip)
	in := vnd.U128Eq(vnd.U128And(a, vnd.U128Not(lowMask(128-g.L))), base)
	return in, vnd.U128Lshr(vnd.U128Sub(a, base), uint(128-g.page)).Lo
}

func blockBase(base vnd.U128, i uint64, g geom) net.IP {
	return net.IP(vnd.U128Bytes(vnd.U128Add(base, vnd.U128Shl(vnd.U128FromU64(i), uint(128-g.page)))))
}

type world struct {
	g       geom
	n       int
	base    vnd.U128
	pool    net.IPNet
	alloc   *bitmap.Allocator
	pre     []uint64
	h       *Handler
	client  dhcpv6.DUID
	key     string
	own     []lease // leases of the requesting client before the call
	ownIdx  []uint64
	foreign lease
	forIdx  uint64
	hasFor  bool
}

// anyDUID: the client identifier kinds a request can carry.
func anyDUID(label string) dhcpv6.DUID {
	switch vnd.Pick(label+"kind", 0, 3) {
	case 0:
		return &dhcpv6.DUIDLL{HWType: dhcpIana.HWType(vnd.U16(label + "hw")), LinkLayerAddr: net.HardwareAddr(vnd.Bytes(label, 6))}
	case 1:
		return &dhcpv6.DUIDLLT{HWType: dhcpIana.HWType(vnd.U16(label + "hw")), Time: vnd.U32(label + "t"), LinkLayerAddr: net.HardwareAddr(vnd.Bytes(label, 6))}
	case 2:
		return &dhcpv6.DUIDEN{EnterpriseNumber: vnd.U32(label + "en"), EnterpriseIdentifier: vnd.Bytes(label, 4)}
	}
	ty := vnd.U16(label + "type")
	vnd.Assume(ty == 0 || ty > 4)
	return &dhcpv6.DUIDOpaque{Type: dhcpv6.DUIDType(ty), Data: vnd.Bytes(label, 3)}
}

// makeWorld builds an arbitrary state satisfying Inv_prefix (DESIGN.md 5.2):
// a pool geometry, an allocator bitmap that is an arbitrary superset of the
// modelled leases, 0..2 leases of the requesting client and one lease of a
// different client, all in distinct blocks, aligned, with mask >= page.
func makeWorld() *world {
	w := &world{g: geoms[vnd.Pick("geom", 0, len(geoms)-1)]}
	g := w.g
	w.n = 1 << uint(g.page-g.L)
	bb := vnd.Bytes("base", 16)
	w.base = vnd.U128From(bb)
	vnd.Assume(vnd.U128Eq(vnd.U128And(w.base, lowMask(128-g.L)), vnd.U128{}))
	if g.L >= 96 {
		vnd.Assume(!vnd.And(bb[10] == 0xff, bb[11] == 0xff)) // not an IPv4 pool (see C19)
	}
	w.pool = net.IPNet{IP: net.IP(bb), Mask: net.CIDRMask(g.L, 128)}
	nw := (w.n + 63) / 64
	words := vnd.U64s("bitmap", nw)
	if w.n%64 != 0 {
		vnd.Assume(words[nw-1]>>(uint(w.n)%64) == 0)
	}
	w.pre = append([]uint64(nil), words...)
	w.alloc = bitmap.VerifNewAllocator(w.pool, g.page, w.n, words)
	w.h = &Handler{Records: make(map[string][]lease), allocator: w.alloc}

	w.client = anyDUID("client")
	w.key = recordKey(w.client)

	t0 := time.Now() // when the existing leases were last extended
	nown := vnd.Pick("own", 0, 2)
	for j := 0; j < nown; j++ {
		i := vnd.U64("ownblock")
		vnd.Assume(i < uint64(w.n))
		vnd.Assume(hbit(words, i))
		for _, o := range w.ownIdx {
			vnd.Assume(o != i)
		}
		ml := g.page
		if vnd.Pick("ownlong", 0, 1) == 1 && g.page+4 <= 128 {
			ml = g.page + 4 // the client had hinted a longer prefix
		}
		l := lease{Prefix: net.IPNet{IP: blockBase(w.base, i, g), Mask: net.CIDRMask(ml, 128)}, Expire: t0.Add(leaseDuration)}
		w.own = append(w.own, l)
		w.ownIdx = append(w.ownIdx, i)
	}
	if nown > 0 {
		w.h.Records[w.key] = append([]lease(nil), w.own...)
	}
	if vnd.Pick("foreign", 0, 1) == 1 && w.n > nown {
		other := &dhcpv6.DUIDLL{HWType: dhcpIana.HWTypeEthernet, LinkLayerAddr: net.HardwareAddr(vnd.Bytes("other", 6))}
		ok := recordKey(other)
		vnd.Assume(ok != w.key)
		i := vnd.U64("foreignblock")
		vnd.Assume(i < uint64(w.n))
		vnd.Assume(hbit(words, i))
		for _, o := range w.ownIdx {
			vnd.Assume(o != i)
		}
		w.foreign = lease{Prefix: net.IPNet{IP: blockBase(w.base, i, g), Mask: net.CIDRMask(g.page, 128)}, Expire: t0.Add(leaseDuration)}
		w.forIdx, w.hasFor = i, true
		w.h.Records[ok] = []lease{w.foreign}
	}
	vnd.ClockJump() // any amount of time may have passed since
	return w
}

const (
	hintNil      = 0 // IAPrefix with wire length 0: the parser leaves Prefix nil ("::/0")
	hintLenOnly  = 1 // :: with a length
	hintOwn      = 2 // exactly a lease the client holds
	hintForeign  = 3 // exactly another client's lease
	hintAny      = 4 // any address, allocation-size mask
	hintLonger   = 5 // any address, longer mask
	hintNilMask  = 6 // wire length > 128: nil mask
	hintLenOther = 7 // :: with a length no lease has
)

func (w *world) hint(kind int) *dhcpv6.OptIAPrefix {
	g := w.g
	switch kind {
	case hintNil:
		return &dhcpv6.OptIAPrefix{Prefix: nil}
	case hintLenOnly:
		return &dhcpv6.OptIAPrefix{Prefix: &net.IPNet{IP: make(net.IP, 16), Mask: net.CIDRMask(g.page, 128)}}
	case hintLenOther:
		return &dhcpv6.OptIAPrefix{Prefix: &net.IPNet{IP: make(net.IP, 16), Mask: net.CIDRMask(g.page+1, 128)}}
	case hintOwn:
		if len(w.own) == 0 {
			vnd.Assume(false)
		}
		j := vnd.Pick("whichown", 0, len(w.own)-1)
		return &dhcpv6.OptIAPrefix{Prefix: &net.IPNet{IP: append(net.IP(nil), w.own[j].Prefix.IP...), Mask: append(net.IPMask(nil), w.own[j].Prefix.Mask...)}}
	case hintForeign:
		if !w.hasFor {
			vnd.Assume(false)
		}
		return &dhcpv6.OptIAPrefix{Prefix: &net.IPNet{IP: append(net.IP(nil), w.foreign.Prefix.IP...), Mask: append(net.IPMask(nil), w.foreign.Prefix.Mask...)}}
	case hintAny:
		return &dhcpv6.OptIAPrefix{Prefix: &net.IPNet{IP: net.IP(vnd.Bytes("hintip", 16)), Mask: net.CIDRMask(g.page, 128)}}
	case hintLonger:
		ml := g.page + 4
		if ml > 128 {
			ml = 128
		}
		return &dhcpv6.OptIAPrefix{Prefix: &net.IPNet{IP: net.IP(vnd.Bytes("hintip", 16)), Mask: net.CIDRMask(ml, 128)}}
	}
	return &dhcpv6.OptIAPrefix{Prefix: &net.IPNet{IP: net.IP(vnd.Bytes("hintip", 16)), Mask: nil}}
}

type pdReq struct {
	iaid  [4]byte
	kinds []int
}

// request builds the client message: k IA_PDs with m hints each.
func (w *world) request() (dhcpv6.DHCPv6, []pdReq) {
	msg := &dhcpv6.Message{MessageType: dhcpv6.MessageType(vnd.U8("msgtype"))}
	copy(msg.TransactionID[:], vnd.Bytes("xid", 3))
	msg.AddOption(dhcpv6.OptClientID(w.client))
	k := vnd.Pick("iapds", 0, 2)
	var pds []pdReq
	for a := 0; a < k; a++ {
		pd := pdReq{}
		copy(pd.iaid[:], vnd.Bytes("iaid", 4))
		iapd := &dhcpv6.OptIAPD{IaId: pd.iaid}
		m := vnd.Pick("hints", 0, 2)
		for b := 0; b < m; b++ {
			kind := vnd.Pick("hk"+string(rune('0'+a*2+b)), 0, 7)
			pd.kinds = append(pd.kinds, kind)
			iapd.Options.Add(w.hint(kind))
		}
		msg.AddOption(iapd)
		pds = append(pds, pd)
	}
	var req dhcpv6.DHCPv6 = msg
	for i, d := 0, vnd.Pick("relay", 0, 2); i < d; i++ {
		r, err := dhcpv6.EncapsulateRelay(req, dhcpv6.MessageTypeRelayForward, net.IP(vnd.Bytes("link", 16)), net.IP(vnd.Bytes("peer", 16)))
		vnd.Assume(err == nil)
		req = r
	}
	return req, pds
}

// renews: the IA_PD carries no hint (or the empty hint), or exactly one hint naming a held prefix.
func renews(kinds []int) bool {
	return len(kinds) == 0 || (len(kinds) == 1 && (kinds[0] == hintNil || kinds[0] == hintOwn))
}

func maskLen(m net.IPMask) int {
	ones, bits := m.Size()
	if bits != 128 {
		return -1
	}
	return ones
}

// VerifH_prefix_step: one Handle call from an arbitrary Inv_prefix state.
func VerifH_prefix_step() {
	w := makeWorld()
	g := w.g
	req, pds := w.request()
	resp := &dhcpv6.Message{MessageType: dhcpv6.MessageTypeReply}

	vnd.Share("prefix", w.h)
	r, stop := w.h.Handle(req, resp)
	vnd.Unshare()

	vnd.Assert(r != nil || stop, "C13 a built-in handler returns a nil response only together with stop")
	vnd.Assert(r != nil || stop, "C01 no handler passes a nil response on to its successors (they would dereference it)")
	vnd.AssertEngine(vnd.HeldLocks() == 0, "C16 prefix plugin lock released")
	if vnd.Symbolic() {
		vnd.AssertEngine(vnd.Acquisitions(&w.h.Mutex) <= len(pds), "C16 the prefix handler takes the plugin mutex at most once per IA_PD")
	}
	vnd.Assert(r == dhcpv6.DHCPv6(resp) && !stop, "C08 request with a client id is answered and passed on")
	out := resp.Options.IAPD()
	vnd.Assert(len(out) == len(pds), "C08 exactly one IA_PD per requested IA_PD")
	if len(out) != len(pds) {
		// whatever else went wrong, an IA_PD of a known client that renews (no
		// hint, or exactly a held prefix) was not answered
		for a := range pds {
			if len(w.own) > 0 && renews(pds[a].kinds) {
				vnd.Assert(false, "C09 an IA_PD that carries no hint or asks for exactly a held prefix is answered, whatever the other IA_PDs of the message ask for")
			}
		}
		return
	}
	post := w.alloc.VerifWords()
	rec := w.h.Records[w.key]
	nDelegated := 0
	// which blocks the reply delegates (for the pool-consumption checks below)
	for a, o := range out {
		vnd.Assert(o.IaId == pds[a].iaid, "C08 IA_PDs answered in order with the same IAID")
		ps := o.Options.Prefixes()
		st := o.Options.Status()
		vnd.Assert(len(ps) >= 1 || (st != nil && st.StatusCode == dhcpIana.StatusNoPrefixAvail), "C08 IA_PD holds a prefix or NoPrefixAvail")
		for _, p := range ps {
			nDelegated++
			vnd.Assert(p.Prefix != nil && len(p.Prefix.IP) == 16, "C08 delegated prefix is well-formed")
			if p.Prefix == nil || len(p.Prefix.IP) != 16 {
				return
			}
			in, bi := blockOf(p.Prefix.IP, w.base, g)
			vnd.Assert(in, "C08 delegated prefix lies in the pool")
			vnd.Assert(vnd.U128Eq(vnd.U128And(vnd.U128From(p.Prefix.IP), lowMask(128-g.page)), vnd.U128{}), "C08 delegated prefix is aligned to the allocation size")
			vnd.Assert(maskLen(p.Prefix.Mask) >= g.page, "C08 delegated prefix is no larger than the allocation size")
			vnd.Assert(p.ValidLifetime > 0 && p.PreferredLifetime > 0, "C08 lifetimes are positive")
			vnd.Assert(p.PreferredLifetime <= p.ValidLifetime && p.ValidLifetime <= time.Hour, "C08 preferred <= valid <= one hour")
			if w.hasFor {
				vnd.Assert(bi != w.forIdx, "C08 never delegates a block another client holds")
			}
			// every delegated prefix is remembered for this client
			found := false
			for _, l := range rec {
				found = found || (l.Prefix.IP.Equal(p.Prefix.IP) && maskLen(l.Prefix.Mask) == maskLen(p.Prefix.Mask))
			}
			vnd.AssertFinding("C09-only-last-new-lease-remembered", found, "C09 every delegated prefix is remembered for the client")
			vnd.Assume(bi < uint64(w.n))
			vnd.Assert(hbit(post, bi), "C08 delegated block is marked outstanding")
		}
	}
	// state invariant afterwards
	vnd.Assert(len(rec) >= len(w.own), "C09 known leases are not forgotten")
	for j := range w.own {
		if j < len(rec) {
			vnd.Assert(rec[j].Prefix.IP.Equal(w.own[j].Prefix.IP) && !rec[j].Expire.Before(w.own[j].Expire), "C09 known leases are kept and never shortened")
		}
	}
	for _, l := range rec {
		in, bi := blockOf(l.Prefix.IP, w.base, g)
		vnd.Assert(in && maskLen(l.Prefix.Mask) >= g.page, "C08 recorded leases stay inside the pool")
		vnd.Assume(bi < uint64(w.n))
		vnd.Assert(hbit(post, bi), "C08 recorded leases are marked outstanding")
		if w.hasFor {
			vnd.Assert(bi != w.forIdx, "C08 recorded leases never overlap another client's")
		}
	}
	if w.hasFor {
		vnd.Assert(hbit(post, w.forIdx), "C08 another client's block stays outstanding")
	}
	// C09: renewals and repeats
	for a, o := range out {
		ps := o.Options.Prefixes()
		has := func(l lease) bool {
			f := false
			for _, p := range ps {
				f = f || (p.Prefix != nil && p.Prefix.IP.Equal(l.Prefix.IP) && maskLen(p.Prefix.Mask) == maskLen(l.Prefix.Mask))
			}
			return f
		}
		kinds := pds[a].kinds
		if len(pds) > 1 && len(w.own) > 0 && renews(kinds) {
			// next to other IA_PDs: still answered with what the client holds
			vnd.Cover("renews-next-to-other-iapd")
			if len(kinds) == 1 && kinds[0] == hintOwn {
				any := false
				for _, l := range w.own {
					any = any || has(l)
				}
				vnd.Assert(any, "C09 a request for exactly a held prefix is answered with that prefix, whatever the other IA_PDs of the message ask for")
			} else {
				for _, l := range w.own {
					vnd.Assert(has(l), "C09 a hint-less IA_PD from a known client is answered with the prefixes it holds, whatever the other IA_PDs of the message ask for")
				}
			}
		}
		if len(pds) == 1 && len(w.own) > 0 {
			hintless := len(kinds) == 0 || (len(kinds) == 1 && kinds[0] == hintNil)
			if hintless {
				vnd.Cover("known-client-hintless")
				for _, l := range w.own {
					vnd.AssertFinding("C09-hintless-allocates-new", has(l), "C09 a hint-less IA_PD from a known client is answered with the prefix it holds")
				}
				same := true
				for i := range post {
					same = vnd.And(same, post[i] == w.pre[i])
				}
				vnd.AssertFinding("C09-hintless-allocates-new", same, "C09 repeating a hint-less request consumes no additional block")
				vnd.AssertFinding("C09-hintless-allocates-new", len(rec) == len(w.own), "C09 repeating a hint-less request records no additional lease")
			}
			if len(kinds) == 1 && kinds[0] == hintOwn {
				vnd.Cover("known-client-renews")
				any := false
				for _, l := range w.own {
					any = any || has(l)
				}
				vnd.Assert(any && len(ps) == 1, "C09 a request for exactly a held prefix is answered with that prefix")
				same := true
				for i := range post {
					same = vnd.And(same, post[i] == w.pre[i])
				}
				vnd.Assert(same && len(rec) == len(w.own), "C09 a renewal consumes no additional block")
			}
		}
	}
	if nDelegated > 0 {
		vnd.Cover("delegated")
	} else if len(pds) > 0 {
		vnd.Cover("nothing-available")
	}
	vnd.Observe("npd", len(out), nDelegated, len(rec))
}
