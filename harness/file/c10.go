//go:build verif

package file

import (
	"errors"
	"net"

	"github.com/coredhcp/coredhcp/internal/vh"
	"github.com/coredhcp/coredhcp/internal/vnd"
	"github.com/insomniacslk/dhcp/dhcpv4"
	"github.com/insomniacslk/dhcp/dhcpv6"
	"github.com/insomniacslk/dhcp/iana"
)

func macNe(a, b []byte) bool {
	ne := false
	for i := range a {
		ne = vnd.Or(ne, a[i] != b[i])
	}
	return ne
}

// table4 installs an arbitrary DHCPv4 table of 0..2 entries (keys in the
// canonical form the loader produces, values in the 16-byte form net.ParseIP
// returns) and reports them.
func table(v6 bool) (macs [][]byte, ips [][]byte) {
	t := map[string]net.IP{}
	n := vnd.Pick("entries", 0, 2)
	for i := 0; i < n; i++ {
		m := vnd.Bytes("mac", 6)
		for _, o := range macs {
			vnd.Assume(macNe(m, o))
		}
		var ip net.IP
		var raw []byte
		if v6 {
			raw = vnd.Bytes("ip", 16)
			ip = net.IP(raw)
		} else {
			raw = vnd.Bytes("ip", 4)
			ip = net.IPv4(raw[0], raw[1], raw[2], raw[3])
		}
		t[net.HardwareAddr(m).String()] = ip
		macs, ips = append(macs, m), append(ips, raw)
	}
	installTable(v6, t)
	return
}

// VerifH_file_serve4: the reply carries exactly table[chaddr] (C10).
func VerifH_file_serve4() {
	macs, ips := table(false)
	req := vh.Req4()
	which := vnd.Pick("client", 0, 3) // 0,1: listed entry; 2: unlisted 6-byte; 3: another length
	var want []byte
	switch {
	case which < len(macs):
		req.ClientHWAddr = net.HardwareAddr(append([]byte(nil), macs[which]...))
		want = ips[which]
	case which == 3:
		req.ClientHWAddr = net.HardwareAddr(vnd.Bytes("chaddr8", 8))
	default:
		for _, o := range macs {
			vnd.Assume(macNe(req.ClientHWAddr, o))
		}
	}
	resp, ec, ev := vh.Resp4(req)
	n0 := len(resp.Options)
	old := resp.YourIPAddr
	// the DHCPv6 instance may list the same hardware address: that is not this protocol's business
	if vnd.Pick("alsov6", 0, 1) == 1 {
		installTable(true, map[string]net.IP{req.ClientHWAddr.String(): net.ParseIP("2001:db8::66")})
	} else {
		installTable(true, nil)
	}

	shareTables()
	r, stop := Handler4(req, resp)
	vnd.Unshare()

	vnd.Assert(r != nil || stop, "C13 a built-in handler returns a nil response only together with stop")
	vnd.Assert(r != nil || stop, "C01 no handler passes a nil response on to its successors (they would dereference it)")
	vnd.AssertEngine(vnd.HeldLocks() == 0, "C16 file plugin read lock released")
	vnd.Assert(r == resp, "C10 file4 passes the response object on")
	if want != nil {
		vnd.Cover("listed")
		vnd.Assert(stop, "C10 a listed DHCPv4 client ends the chain")
		vnd.Assert(resp.YourIPAddr.To4() != nil && vh.BytesAre(resp.YourIPAddr.To4(), want), "C10 a listed client is answered with the address listed for it")
	} else {
		vnd.Cover("unlisted")
		vnd.Assert(!stop, "C10 an unlisted client is passed on")
		vnd.Assert(vh.BytesAre(resp.YourIPAddr, old), "C10 an unlisted client gets nothing from this plugin")
	}
	vnd.Assert(vh.Untouched4(resp, req, ec, ev, n0), "C10 file4 leaves everything else untouched")
}

// VerifH_file_serve6: IA_NA with the listed address when one was requested.
func VerifH_file_serve6() {
	macs, ips := table(true)
	var cm []byte // the client's hardware address as the plugin can learn it (nil: not learnable)
	which := vnd.Pick("client", 0, 2)
	if which < len(macs) {
		cm = append([]byte(nil), macs[which]...)
	} else {
		cm = vnd.Bytes("cmac", 6)
		for _, o := range macs {
			vnd.Assume(macNe(cm, o))
		}
	}
	msg := &dhcpv6.Message{MessageType: dhcpv6.MessageType(vnd.U8("msgtype"))}
	copy(msg.TransactionID[:], vnd.Bytes("xid", 3))
	src := vnd.Pick("macsource", 0, 4) // 0 DUID-LL, 1 DUID-LLT, 2 relay option 79, 3 relay EUI-64 peer, 4 none (DUID-EN)
	learnable := true
	switch src {
	case 0:
		msg.AddOption(dhcpv6.OptClientID(&dhcpv6.DUIDLL{HWType: iana.HWTypeEthernet, LinkLayerAddr: net.HardwareAddr(cm)}))
	case 1:
		msg.AddOption(dhcpv6.OptClientID(&dhcpv6.DUIDLLT{HWType: iana.HWTypeEthernet, Time: vnd.U32("t"), LinkLayerAddr: net.HardwareAddr(cm)}))
	default:
		msg.AddOption(dhcpv6.OptClientID(&dhcpv6.DUIDEN{EnterpriseNumber: 9, EnterpriseIdentifier: vnd.Bytes("en", 4)}))
	}
	iaid := vnd.Bytes("iaid", 4)
	wantsNA := vnd.Pick("iana", 0, 1) == 1
	if wantsNA {
		ia := &dhcpv6.OptIANA{}
		copy(ia.IaId[:], iaid)
		msg.AddOption(ia)
	}
	var req dhcpv6.DHCPv6 = msg
	switch src {
	case 2:
		r, _ := dhcpv6.EncapsulateRelay(msg, dhcpv6.MessageTypeRelayForward, net.IP(vnd.Bytes("link", 16)), net.IP(vnd.Bytes("peer", 16)))
		r.AddOption(dhcpv6.OptClientLinkLayerAddress(iana.HWTypeEthernet, net.HardwareAddr(cm)))
		req = r
	case 3:
		peer := make([]byte, 16)
		copy(peer, vnd.Bytes("peerhi", 8))
		peer[8], peer[9], peer[10], peer[11], peer[12], peer[13], peer[14], peer[15] = cm[0]^2, cm[1], cm[2], 0xff, 0xfe, cm[3], cm[4], cm[5]
		r, _ := dhcpv6.EncapsulateRelay(msg, dhcpv6.MessageTypeRelayForward, net.IP(vnd.Bytes("link", 16)), net.IP(peer))
		req = r
	case 4:
		learnable = false
	}
	resp, extra := vh.Resp6(msg, uint16(dhcpv6.OptionIANA))
	n0 := len(resp.Options.Options)

	shareTables()
	r, stop := Handler6(req, resp)
	vnd.Unshare()

	vnd.Assert(r != nil || stop, "C13 a built-in handler returns a nil response only together with stop")
	vnd.Assert(r != nil || stop, "C01 no handler passes a nil response on to its successors (they would dereference it)")
	vnd.AssertEngine(vnd.HeldLocks() == 0, "C16 file plugin read lock released")
	vnd.Assert(r == dhcpv6.DHCPv6(resp) && !stop, "C10 file6 passes the response on")
	nas := resp.Options.Get(dhcpv6.OptionIANA)
	if wantsNA && learnable && which < len(macs) {
		vnd.Cover("listed")
		vnd.Assert(len(nas) == 1, "C10 a listed DHCPv6 client gets exactly one IA_NA when it asked for one")
		if len(nas) == 1 {
			na := nas[0].(*dhcpv6.OptIANA)
			vnd.Assert(vh.BytesAre(na.IaId[:], iaid), "C10 the IA_NA carries the request's IAID")
			addrs := na.Options.Addresses()
			vnd.Assert(len(addrs) == 1 && vh.BytesAre(addrs[0].IPv6Addr, ips[which]), "C10 the IA_NA carries the address listed for the client")
		}
		vnd.Assert(len(resp.Options.Options) == n0+1, "C10 file6 leaves everything else untouched")
	} else {
		vnd.Cover("nothing")
		vnd.Assert(len(nas) == 0, "C10 no IA_NA for unlisted clients or when none was requested")
		vnd.Assert(len(resp.Options.Options) == n0, "C10 file6 leaves everything else untouched")
	}
	if extra != nil {
		vnd.Assert(resp.Options.GetOne(extra.OptionCode) == dhcpv6.Option(extra), "C10 file6 keeps unrelated options")
	}
}

// ---- refresh: all-or-nothing ----

var (
	stubRecords map[string]net.IP
	stubLoadErr error
)

func stubLoad(filename string) (map[string]net.IP, error) {
	if stubLoadErr != nil {
		return nil, stubLoadErr
	}
	return stubRecords, nil
}

// VerifH_file_swap: a refresh replaces the whole mapping after a successful
// parse and leaves the previous mapping in force otherwise.
func VerifH_file_swap() {
	v6 := vnd.Pick("proto", 0, 1) == 1
	old := map[string]net.IP{"00:00:00:00:00:01": net.IP{192, 0, 2, 1}}
	installTable(v6, old)
	fresh := map[string]net.IP{"00:00:00:00:00:02": net.IP{192, 0, 2, 2}, "00:00:00:00:00:03": net.IP{192, 0, 2, 3}}
	// a file without any lease line (empty, or comments only) is well-formed too
	empty := vnd.Pick("emptyfile", 0, 1) == 1
	if empty {
		fresh = map[string]net.IP{}
	}
	fails := vnd.Pick("malformed", 0, 1) == 1
	stubRecords, stubLoadErr = fresh, nil
	if fails {
		stubLoadErr = errors.New("malformed line")
	}
	before := vnd.CriticalSections()

	shareTables()
	err := loadFromFile(v6, "leases.txt")
	vnd.Unshare()

	sections := vnd.CriticalSections() - before
	vnd.AssertEngine(vnd.HeldLocks() == 0, "C16 file plugin write lock released")
	cur := currentTable(v6)
	if fails {
		vnd.Cover("bad-update")
		vnd.Assert(err != nil, "C10 a malformed file is reported")
		vnd.Assert(len(cur) == 1 && cur["00:00:00:00:00:01"] != nil, "C10 a malformed update leaves the previous mapping in force")
	} else {
		vnd.Cover("good-update")
		vnd.Assert(err == nil, "C10 a well-formed file loads")
		if empty {
			vnd.Cover("emptied")
			vnd.Assert(len(cur) == 0, "C10 a well-formed update without leases removes every client")
		} else {
			vnd.Assert(len(cur) == 2 && cur["00:00:00:00:00:02"] != nil && cur["00:00:00:00:00:03"] != nil && cur["00:00:00:00:00:01"] == nil, "C10 a well-formed update replaces the whole mapping")
		}
		vnd.AssertEngine(sections == 1, "C16 the mapping is swapped inside one write-locked section")
	}
}

// ---- files ----

var files map[string][]byte

func stubReadFile(name string) ([]byte, error) {
	b, ok := files[name]
	if !ok {
		return nil, errors.New("open " + name + ": no such file or directory")
	}
	return b, nil
}

// VerifH_file_dualstack: the DHCPv4 and the DHCPv6 instance each serve from their own file.
func VerifH_file_dualstack() {
	files = map[string][]byte{
		"v4.txt": []byte("00:11:22:33:44:55 192.0.2.10\n"),
		"v6.txt": []byte("00:11:22:33:44:55 2001:db8::10\naa:bb:cc:dd:ee:ff 2001:db8::11\n"),
	}
	v4empty := vnd.Pick("v4empty", 0, 1) == 1
	if v4empty {
		files["v4.txt"] = []byte("# no DHCPv4 leases yet\n") // a well-formed file without leases
	}
	var h4 func(req, resp *dhcpv4.DHCPv4) (*dhcpv4.DHCPv4, bool)
	var h6 func(req, resp dhcpv6.DHCPv6) (dhcpv6.DHCPv6, bool)
	var err4, err6 error
	// the second instance is set up while the first one is already serving
	shareTables()
	if vnd.Pick("order", 0, 1) == 0 {
		h4, err4 = setup4("v4.txt")
		h6, err6 = setup6("v6.txt")
	} else {
		h6, err6 = setup6("v6.txt")
		h4, err4 = setup4("v4.txt")
	}
	vnd.Unshare()
	vnd.Assert(err4 == nil && err6 == nil && h4 != nil && h6 != nil, "C10 both instances load their file")
	if err4 != nil || err6 != nil {
		return
	}
	vnd.Cover("dual-stack")
	req := vh.Req4()
	req.ClientHWAddr = net.HardwareAddr{0x00, 0x11, 0x22, 0x33, 0x44, 0x55}
	resp, _, _ := vh.Resp4(req)
	r, stop := h4(req, resp)
	if v4empty {
		// the client is listed for DHCPv6 only: the DHCPv4 instance has nothing for it
		vnd.Cover("v4-file-empty")
		vnd.Assert(r == resp && !stop, "C10 clients not listed in the DHCPv4 file get nothing from the DHCPv4 instance")
		yi := resp.YourIPAddr
		ok4 := yi == nil || yi.To4() != nil
		vnd.Assert(ok4, "C10 the DHCPv4 instance never serves an address of the DHCPv6 file")
		vnd.Assert(ok4, "C19 an accepted dual-stack file configuration never puts an IPv6 address into a DHCPv4 reply (serialising it would crash the server)")
		if ok4 && r != nil {
			_ = r.ToBytes() // a panic here is a violation
		}
	} else {
		vnd.AssertFinding("C10-one-table-for-both-protocols", r == resp && stop && resp.YourIPAddr.To4() != nil && vh.BytesAre(resp.YourIPAddr.To4(), []byte{192, 0, 2, 10}),
			"C10 the DHCPv4 instance serves from its own file")
	}
	msg := &dhcpv6.Message{MessageType: dhcpv6.MessageTypeSolicit}
	msg.AddOption(dhcpv6.OptClientID(&dhcpv6.DUIDLL{HWType: iana.HWTypeEthernet, LinkLayerAddr: net.HardwareAddr{0xaa, 0xbb, 0xcc, 0xdd, 0xee, 0xff}}))
	msg.AddOption(&dhcpv6.OptIANA{})
	resp6 := &dhcpv6.Message{MessageType: dhcpv6.MessageTypeAdvertise}
	h6(msg, resp6)
	nas := resp6.Options.Get(dhcpv6.OptionIANA)
	ok6 := false
	if len(nas) == 1 {
		a := nas[0].(*dhcpv6.OptIANA).Options.Addresses()
		ok6 = len(a) == 1 && a[0].IPv6Addr.Equal(net.ParseIP("2001:db8::11"))
	}
	vnd.AssertFinding("C10-one-table-for-both-protocols", ok6, "C10 the DHCPv6 instance serves from its own file")
}

// ---- the line parser ----

type tok struct {
	text string
	key  string // canonical key, "" if not a MAC
}

var macToks = []tok{
	{"00:11:22:33:44:55", "00:11:22:33:44:55"}, {"00-11-22-33-44-55", "00:11:22:33:44:55"}, {"0011.2233.4455", "00:11:22:33:44:55"},
	{"AA:BB:CC:DD:EE:0F", "aa:bb:cc:dd:ee:0f"}, {"00:11:22:33:44:55:66:77", "00:11:22:33:44:55:66:77"},
	{"00:11:22:33:44:55:66:77:88:99:aa:bb:cc:dd:ee:ff:00:11:22:33", "00:11:22:33:44:55:66:77:88:99:aa:bb:cc:dd:ee:ff:00:11:22:33"},
}
var badMacToks = []string{"00:11:22:33:44", "0g:11:22:33:44:55", "001122334455", "00:11:22:33:44:55:"}

type iptok struct {
	text string
	v4   []byte // non-nil: an IPv4 address (also for v4-mapped spellings)
	v6   []byte // non-nil: a true IPv6 address
}

var ipToks = []iptok{
	{"192.0.2.10", []byte{192, 0, 2, 10}, nil}, {"::ffff:192.0.2.11", []byte{192, 0, 2, 11}, nil}, {"255.255.255.255", []byte{255, 255, 255, 255}, nil},
	{"2001:db8::1", nil, []byte{0x20, 0x01, 0x0d, 0xb8, 0, 0, 0, 0, 0, 0, 0, 0, 0, 0, 0, 1}},
	{"2001:0db8:0000:0000:0000:0000:0000:0002", nil, []byte{0x20, 0x01, 0x0d, 0xb8, 0, 0, 0, 0, 0, 0, 0, 0, 0, 0, 0, 2}},
	{"fe80::1%eth0", nil, nil}, {"192.0.2", nil, nil}, {"garbage", nil, nil}, {"192.0.2.010", nil, nil},
}
var seps = []string{" ", "\t", "  \t "}

// VerifH_file_loader: the real LoadDHCPv4Records / LoadDHCPv6Records on files
// assembled from a symbolic layout over concrete tokens (every MAC/IP spelling
// class, comments, blank lines, duplicates, one of each malformation).
func VerifH_file_loader() {
	v6 := vnd.Pick("proto", 0, 1) == 1
	nl := vnd.Pick("lines", 0, 3)
	text := ""
	want := map[string][]byte{}
	bad := false
	for i := 0; i < nl; i++ {
		ls := string(rune('0' + i))
		switch vnd.Pick("kind"+ls, 0, 6) {
		case 0: // valid line (possibly of the other family -> malformed for this loader)
			// one variant index selects the spelling of every token so that each
			// spelling occurs without multiplying the cases
			v := vnd.Pick("variant"+ls, 0, 17)
			m := macToks[v%len(macToks)]
			ip := ipToks[v%len(ipToks)]
			lead, trail := "", ""
			if v%2 == 1 {
				lead, trail = " ", " \t"
			}
			text += lead + m.text + seps[v%len(seps)] + ip.text + trail
			val := ip.v4
			if v6 {
				val = ip.v6
			}
			if val == nil {
				bad = true
			} else {
				want[m.key] = val // last occurrence wins
			}
		case 1:
			text += "# 00:11:22:33:44:55 192.0.2.99"
		case 2:
			text += ""
		case 3:
			text += "00:11:22:33:44:55"
			bad = true
		case 4:
			text += "00:11:22:33:44:55 192.0.2.10 2001:db8::1"
			bad = true
		case 5:
			text += badMacToks[vnd.Pick("badmac"+ls, 0, len(badMacToks)-1)] + " 192.0.2.10"
			bad = true
		case 6:
			text += "   " // whitespace only: not empty, no fields
			bad = true
		}
		if i < nl-1 || vnd.Pick("finalnl", 0, 1) == 1 {
			text += "\n"
		}
	}
	files = map[string][]byte{"leases.txt": []byte(text)}
	var got map[string]net.IP
	var err error
	if v6 {
		got, err = LoadDHCPv6Records("leases.txt")
	} else {
		got, err = LoadDHCPv4Records("leases.txt")
	}
	if bad {
		vnd.Cover("rejected")
		vnd.Assert(err != nil && got == nil, "C10 a file with any malformed line is rejected as a whole")
		return
	}
	vnd.Cover("accepted")
	vnd.Assert(err == nil, "C10 a well-formed file loads")
	vnd.Assert(len(got) == len(want), "C10 the mapping has exactly the listed hardware addresses")
	for k, v := range want {
		ip := got[k]
		if v6 {
			vnd.Assert(ip != nil && ip.To4() == nil && vh.BytesAre(ip.To16(), v), "C10 each hardware address maps to the address listed last for it")
		} else {
			vnd.Assert(ip != nil && ip.To4() != nil && vh.BytesAre(ip.To4(), v), "C10 each hardware address maps to the address listed last for it")
		}
	}
	_, errMissing := LoadDHCPv4Records("missing.txt")
	vnd.Assert(errMissing != nil, "C10 a missing file is an error")
}
