//go:build verif

package serverid

import (
	"net"

	"github.com/coredhcp/coredhcp/internal/vnd"
	"github.com/insomniacslk/dhcp/dhcpv4"
	"github.com/insomniacslk/dhcp/dhcpv6"
	"github.com/insomniacslk/dhcp/iana"
)

// duidShape is the harness' own description of a DUID, compared structurally
// (independent of the library's Equal methods).
type duidShape struct {
	kind   int // 1 LLT, 2 EN, 3 LL, 4 UUID, 5 opaque
	hwtype uint16
	time   uint32
	num    uint32 // enterprise number / opaque type
	data   []byte
}

func shapeEq(a, b duidShape) bool {
	if a.kind != b.kind || len(a.data) != len(b.data) {
		return false
	}
	eq := vnd.And(a.hwtype == b.hwtype, vnd.And(a.time == b.time, a.num == b.num))
	for i := range a.data {
		eq = vnd.And(eq, a.data[i] == b.data[i])
	}
	return eq
}

// anyDUID draws a DUID of the given kind with symbolic fields and a payload of n bytes.
func anyDUID(label string, kind, n int) (dhcpv6.DUID, duidShape) {
	switch kind {
	case 1:
		hw, tm, b := vnd.U16(label+"hw"), vnd.U32(label+"time"), vnd.Bytes(label, n)
		return &dhcpv6.DUIDLLT{HWType: iana.HWType(hw), Time: tm, LinkLayerAddr: net.HardwareAddr(b)}, duidShape{kind: 1, hwtype: hw, time: tm, data: b}
	case 2:
		en, b := vnd.U32(label+"en"), vnd.Bytes(label, n)
		return &dhcpv6.DUIDEN{EnterpriseNumber: en, EnterpriseIdentifier: b}, duidShape{kind: 2, num: en, data: b}
	case 3:
		hw, b := vnd.U16(label+"hw"), vnd.Bytes(label, n)
		return &dhcpv6.DUIDLL{HWType: iana.HWType(hw), LinkLayerAddr: net.HardwareAddr(b)}, duidShape{kind: 3, hwtype: hw, data: b}
	case 4:
		b := vnd.Bytes(label, 16)
		var u [16]byte
		copy(u[:], b)
		return &dhcpv6.DUIDUUID{UUID: u}, duidShape{kind: 4, data: b}
	}
	ty, b := vnd.U16(label+"type"), vnd.Bytes(label, n)
	vnd.Assume(ty == 0 || ty > 4) // the parser produces DUIDOpaque only for unknown types
	return &dhcpv6.DUIDOpaque{Type: dhcpv6.DUIDType(ty), Data: b}, duidShape{kind: 5, num: uint32(ty), data: b}
}

// configured6 sets the package state to any value setup6 can produce:
// DUID-LL or DUID-LLT (time 0), Ethernet, 6/8/20-byte address.
func configured6() duidShape {
	n := []int{6, 8, 20}[vnd.Pick("cfglen", 0, 2)]
	b := vnd.Bytes("cfgmac", n)
	if vnd.Pick("cfgkind", 0, 1) == 0 {
		v6ServerID = &dhcpv6.DUIDLL{HWType: iana.HWTypeEthernet, LinkLayerAddr: net.HardwareAddr(b)}
		return duidShape{kind: 3, hwtype: 1, data: b}
	}
	v6ServerID = &dhcpv6.DUIDLLT{Time: 0, HWType: iana.HWTypeEthernet, LinkLayerAddr: net.HardwareAddr(b)}
	return duidShape{kind: 1, hwtype: 1, data: b}
}

// VerifH_sid6: the RFC 8415 section 16 accept/drop table and the identifier in replies.
func VerifH_sid6() {
	cfg := configured6()
	t := vnd.U8("msgtype")
	msg := &dhcpv6.Message{MessageType: dhcpv6.MessageType(t)}
	copy(msg.TransactionID[:], vnd.Bytes("xid", 3))
	// Server Identifier in the request: absent, or any DUID kind; payload length
	// around the configured one (same, one shorter, one longer, empty)
	sidkind := vnd.Pick("sidkind", 0, 5)
	var sid duidShape
	if sidkind != 0 {
		n := len(cfg.data) + vnd.Pick("sidlen", -1, 1)
		if vnd.Pick("sidempty", 0, 1) == 1 {
			n = 0
		}
		var d dhcpv6.DUID
		d, sid = anyDUID("sid", sidkind, n)
		msg.AddOption(dhcpv6.OptServerID(d))
	}
	var req dhcpv6.DHCPv6 = msg
	depth := vnd.Pick("relay", 0, 2)
	for i := 0; i < depth; i++ {
		r, err := dhcpv6.EncapsulateRelay(req, dhcpv6.MessageTypeRelayForward, net.IP(vnd.Bytes("link", 16)), net.IP(vnd.Bytes("peer", 16)))
		vnd.Assume(err == nil)
		req = r
	}
	resp := &dhcpv6.Message{MessageType: dhcpv6.MessageTypeReply}
	if vnd.Pick("respsid", 0, 1) == 1 {
		other, _ := anyDUID("old", 3, 6)
		resp.AddOption(dhcpv6.OptServerID(other))
	}

	r, stop := Handler6(req, resp)

	vnd.Assert(r != nil || stop, "C13 a built-in handler returns a nil response only together with stop")
	vnd.Assert(r != nil || stop, "C01 no handler passes a nil response on to its successors (they would dereference it)")
	has := sidkind != 0
	match := has && shapeEq(sid, cfg)
	noSidTypes := vnd.Or(t == 1, vnd.Or(t == 4, t == 6))                   // SOLICIT, CONFIRM, REBIND
	needSidTypes := vnd.Or(vnd.Or(t == 3, t == 5), vnd.Or(t == 9, t == 8)) // REQUEST, RENEW, DECLINE, RELEASE
	var drop bool
	if has {
		drop = vnd.Or(noSidTypes, !match)
	} else {
		drop = needSidTypes
	}
	if r == nil {
		vnd.Cover("dropped")
		vnd.Assert(stop, "C14 v6 nil response only with stop")
		vnd.Assert(drop, "C14 v6 message discarded only per RFC 8415 section 16")
		return
	}
	vnd.Cover("answered")
	vnd.Assert(!drop, "C14 v6 message that must be discarded is discarded")
	vnd.Assert(!stop, "C14 v6 accepted message continues the chain")
	out, ok := r.(*dhcpv6.Message)
	vnd.Assert(ok && out == resp, "C14 v6 response object is passed on")
	if !ok {
		return
	}
	sids := out.Options.Get(dhcpv6.OptionServerID)
	vnd.Assert(len(sids) == 1, "C14 v6 reply carries exactly one Server Identifier")
	got := out.Options.ServerID()
	vnd.Assert(got != nil, "C14 v6 reply carries a Server Identifier")
	if got == nil {
		return
	}
	gb := got.ToBytes()
	wb := v6ServerID.ToBytes()
	vnd.Assert(len(gb) == len(wb), "C14 v6 reply Server Identifier is this server's DUID")
	if len(gb) == len(wb) {
		eq := true
		for i := range gb {
			eq = vnd.And(eq, gb[i] == wb[i])
		}
		vnd.Assert(eq, "C14 v6 reply Server Identifier is this server's DUID")
	}
	vnd.Observe("sid", gb)
}

func ip4(b []byte) uint32 {
	return uint32(b[0])<<24 | uint32(b[1])<<16 | uint32(b[2])<<8 | uint32(b[3])
}

// VerifH_sid4: DHCPv4 requests naming another server (siaddr or option 54) are
// dropped, all other replies carry this server's address in both places.
func VerifH_sid4() {
	own := vnd.Bytes("own", 4)
	v4ServerID = net.IP(own)
	req := &dhcpv4.DHCPv4{OpCode: dhcpv4.OpcodeType(vnd.U8("opcode")), Options: dhcpv4.Options{}}
	var si []byte
	sikind := vnd.Pick("siaddr", 0, 2) // nil, 4 bytes, 16 bytes v4-mapped
	switch sikind {
	case 1:
		si = vnd.Bytes("si", 4)
		req.ServerIPAddr = net.IP(si)
	case 2:
		si = vnd.Bytes("si", 4)
		req.ServerIPAddr = net.IPv4(si[0], si[1], si[2], si[3])
	}
	var o54 []byte
	o54kind := vnd.Pick("opt54", 0, 2) // absent, 4 bytes, malformed (3 bytes)
	switch o54kind {
	case 1:
		o54 = vnd.Bytes("o54", 4)
		req.Options[uint8(dhcpv4.OptionServerIdentifier)] = o54
	case 2:
		req.Options[uint8(dhcpv4.OptionServerIdentifier)] = vnd.Bytes("o54", 3)
	}
	resp := &dhcpv4.DHCPv4{OpCode: dhcpv4.OpcodeBootReply, Options: dhcpv4.Options{}}
	if vnd.Pick("respold", 0, 1) == 1 {
		resp.Options[uint8(dhcpv4.OptionServerIdentifier)] = vnd.Bytes("old54", 4)
		resp.ServerIPAddr = net.IP(vnd.Bytes("oldsi", 4))
	}

	r, stop := Handler4(req, resp)

	vnd.Assert(r != nil || stop, "C13 a built-in handler returns a nil response only together with stop")
	vnd.Assert(r != nil || stop, "C01 no handler passes a nil response on to its successors (they would dereference it)")
	if req.OpCode != dhcpv4.OpcodeBootRequest {
		vnd.Cover("not-a-request")
		vnd.Assert(r == resp && !stop, "C14 v4 non-requests are left to the server's own filter")
		return
	}
	ownv := ip4(own)
	otherSi := sikind != 0 && vnd.And(ip4(si) != 0, ip4(si) != ownv)
	otherOpt := o54kind == 1 && ip4(o54) != ownv
	if r == nil {
		vnd.Cover("dropped")
		vnd.Assert(stop, "C14 v4 nil response only with stop")
		vnd.Assert(vnd.Or(otherSi, otherOpt), "C14 v4 request dropped only when it names another server")
		return
	}
	vnd.Cover("answered")
	vnd.Assert(!otherSi, "C14 v4 request naming another server in siaddr is dropped")
	vnd.AssertFinding("C14-v4-option54-ignored", !otherOpt, "C14 v4 request naming another server in option 54 is dropped")
	vnd.Assert(r == resp && !stop, "C14 v4 accepted request continues the chain")
	vnd.Assert(len(r.ServerIPAddr) == 4, "C14 v4 reply siaddr is a 4-byte address")
	if len(r.ServerIPAddr) == 4 {
		vnd.Assert(ip4(r.ServerIPAddr) == ownv, "C14 v4 reply siaddr is this server")
	}
	o := r.Options[uint8(dhcpv4.OptionServerIdentifier)]
	vnd.Assert(len(o) == 4, "C14 v4 reply option 54 is a 4-byte address")
	if len(o) == 4 {
		vnd.Assert(ip4(o) == ownv, "C14 v4 reply option 54 is this server")
	}
	vnd.Observe("reply", []byte(r.ServerIPAddr), o)
}

// VerifH_sid_setup: what setup4/setup6 accept is exactly what the two
// harnesses above range over (4-byte address; DUID-LL / DUID-LLT, time 0,
// Ethernet, 6/8/20-byte address), everything else is rejected.
func VerifH_sid_setup() {
	args := [][]string{
		{"ll", "00:11:22:33:44:55"}, {"LLT", "00-11-22-33-44-55-66-77"}, {"duid-ll", "0011.2233.4455.6677.8899.aabb.ccdd.eeff.0011.2233"},
		{"en", "00:11:22:33:44:55"}, {"uuid", "00:11:22:33:44:55"}, {"xx", "00:11:22:33:44:55"}, {"ll", "zz"}, {"ll"}, {"", "00:11:22:33:44:55"}, {"ll", ""}, {},
	}
	i := vnd.Pick("args6", 0, len(args)-1)
	v6ServerID = nil
	h, err := setup6(args[i]...)
	if i <= 2 {
		vnd.Cover("accepted6")
		vnd.Assert(err == nil && h != nil, "C14 setup6 accepts DUID-LL/LLT with a MAC")
		want := []int{6, 8, 20}[i]
		switch d := v6ServerID.(type) {
		case *dhcpv6.DUIDLL:
			vnd.Assert(i != 1 && d.HWType == iana.HWTypeEthernet && len(d.LinkLayerAddr) == want, "C14 setup6 DUID-LL shape")
		case *dhcpv6.DUIDLLT:
			vnd.Assert(i == 1 && d.HWType == iana.HWTypeEthernet && d.Time == 0 && len(d.LinkLayerAddr) == want, "C14 setup6 DUID-LLT shape")
		default:
			vnd.Assert(false, "C14 setup6 produces DUID-LL or DUID-LLT")
		}
	} else {
		vnd.Cover("rejected6")
		vnd.Assert(err != nil, "C14 setup6 rejects unsupported arguments")
	}
	args4 := [][]string{{"10.0.0.1"}, {"::ffff:10.0.0.1"}, {"2001:db8::1"}, {"garbage"}, {""}, {}}
	j := vnd.Pick("args4", 0, len(args4)-1)
	v4ServerID = nil
	h4, err4 := setup4(args4[j]...)
	if j <= 1 {
		vnd.Cover("accepted4")
		vnd.Assert(err4 == nil && h4 != nil && len(v4ServerID) == 4, "C14 setup4 stores a 4-byte address")
	} else {
		vnd.Cover("rejected4")
		vnd.Assert(err4 != nil, "C14 setup4 rejects non-IPv4 arguments")
	}
}
