package main

import (
	"fmt"
	"go/types"
	"os"
	"path/filepath"
	"sort"
	"strings"
	"sync"
	"sync/atomic"

	"golang.org/x/tools/go/packages"
	"golang.org/x/tools/go/ssa"
	"golang.org/x/tools/go/ssa/ssautil"
)

// repoDir is the tree under verification. Registered commands always use /repo;
// VERIF_REPO exists only so that seeded and behaviour-preserving changes can be
// tried against scratch worktrees without touching /repo (tools/seedtest.sh).
var repoDir = func() string {
	if d := os.Getenv("VERIF_REPO"); d != "" {
		return d
	}
	return "/repo"
}()
const modPath = "github.com/coredhcp/coredhcp"

// Engine is the shared, read-only part: the SSA program built from /repo's
// working tree plus the overlaid harness files.
type Engine struct {
	prog      *ssa.Program
	pkgs      []*packages.Package
	byPath    map[string]*ssa.Package
	pkgNames  map[string]string // rel dir -> package name
	mu        sync.Mutex
	initAllow []string
	overlay   map[string]string // virtual path -> real file (for native replay)
	summaries  sync.Map
	secondSame int64
	secondDiff int64
}

func (e *Engine) methodValue(sel *types.Selection) *ssa.Function {
	e.mu.Lock()
	defer e.mu.Unlock()
	return e.prog.MethodValue(sel)
}

func (e *Engine) noteSummary(name string) { e.summaries.Store(name, true) }

func (e *Engine) buildOnDemand(fn *ssa.Function) {}

func (e *Engine) noteSecond(a, b string) {
	if b == "unknown" {
		return
	}
	if a == b {
		atomic.AddInt64(&e.secondSame, 1)
	} else {
		atomic.AddInt64(&e.secondDiff, 1)
		fmt.Printf("SOLVER-DISAGREEMENT primary=%s second=%s\n", a, b)
	}
}

func goEnv() []string {
	env := os.Environ()
	env = append(env, "GOFLAGS=-mod=mod", "GOPROXY=off", "GOSUMDB=off", "GOTOOLCHAIN=local", "CGO_ENABLED=1")
	return env
}

// harnessOverlay maps harness directories (under /verif/harness) into /repo.
// harnessDirs: rel package dir (e.g. "plugins/allocators/bitmap") -> harness dir name.
func harnessOverlay(verifDir string, harnessDirs map[string]string) (map[string]string, error) {
	ov := map[string]string{}
	vfiles, _ := filepath.Glob(filepath.Join(verifDir, "harness/vnd/*.go"))
	if len(vfiles) == 0 {
		return nil, fmt.Errorf("no vnd package under %s/harness/vnd", verifDir)
	}
	for _, f := range vfiles {
		ov[filepath.Join(repoDir, "internal/vnd", filepath.Base(f))] = f
	}
	hfiles, _ := filepath.Glob(filepath.Join(verifDir, "harness/vh/*.go"))
	for _, f := range hfiles {
		ov[filepath.Join(repoDir, "internal/vh", filepath.Base(f))] = f
	}
	for rel, h := range harnessDirs {
		hfiles, _ := filepath.Glob(filepath.Join(verifDir, "harness", h, "*.go"))
		if len(hfiles) == 0 {
			return nil, fmt.Errorf("no harness files in %s/harness/%s", verifDir, h)
		}
		for _, f := range hfiles {
			ov[filepath.Join(repoDir, rel, "zz_verif_"+filepath.Base(f))] = f
		}
	}
	return ov, nil
}

func loadEngine(patterns []string, overlay map[string]string) (*Engine, error) {
	ovb := map[string][]byte{}
	for dst, src := range overlay {
		b, err := os.ReadFile(src)
		if err != nil {
			return nil, err
		}
		ovb[dst] = b
	}
	cfg := &packages.Config{Mode: packages.LoadAllSyntax, Dir: repoDir, Overlay: ovb, BuildFlags: []string{"-tags=verif"}, Env: goEnv()}
	pkgs, err := packages.Load(cfg, patterns...)
	if err != nil {
		return nil, err
	}
	var errs []string
	packages.Visit(pkgs, nil, func(p *packages.Package) {
		for _, e := range p.Errors {
			errs = append(errs, fmt.Sprintf("%s: %v", p.PkgPath, e))
		}
	})
	if len(errs) > 0 {
		sort.Strings(errs)
		if len(errs) > 20 {
			errs = errs[:20]
		}
		return nil, fmt.Errorf("harness/repo does not type-check:\n  %s", strings.Join(errs, "\n  "))
	}
	prog, _ := ssautil.AllPackages(pkgs, ssa.InstantiateGenerics)
	prog.Build()
	e := &Engine{prog: prog, pkgs: pkgs, byPath: map[string]*ssa.Package{}, pkgNames: map[string]string{}, overlay: overlay}
	for _, sp := range prog.AllPackages() {
		e.byPath[sp.Pkg.Path()] = sp
	}
	for _, p := range pkgs {
		rel := strings.TrimPrefix(strings.TrimPrefix(p.PkgPath, modPath), "/")
		e.pkgNames[rel] = p.Name
	}
	return e, nil
}

func (e *Engine) findFunc(relDir, name string) *ssa.Function {
	path := modPath
	if relDir != "" && relDir != "." {
		path += "/" + relDir
	}
	sp := e.byPath[path]
	if sp == nil {
		return nil
	}
	return sp.Func(name)
}

func relOf(pkgPattern string) string {
	return strings.TrimSuffix(strings.TrimPrefix(pkgPattern, "./"), "/")
}
