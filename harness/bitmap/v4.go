//go:build verif

package bitmap

import (
	"net"

	"github.com/bits-and-blooms/bitset"
	"github.com/coredhcp/coredhcp/internal/vnd"
	"github.com/coredhcp/coredhcp/plugins/allocators"
)

// ---- oracle helpers on plain []uint64 (independent of bitset and ipcalc) ----

func hbit(words []uint64, i uint64) bool {
	return (words[i>>6]>>(i&63))&1 == 1
}

// hsame: post equals pre except that bit i has value set (i < 0 means no change).
func hsameExcept(post, pre []uint64, i uint64, change bool, set bool) bool {
	ok := true
	for w := range pre {
		m := vnd.Ite64(vnd.And(change, uint64(w) == i>>6), uint64(1)<<(i&63), 0)
		want := vnd.Ite64(set, pre[w]|m, pre[w]&^m)
		ok = vnd.And(ok, post[w] == want)
	}
	return ok
}

func hallSet(words []uint64, n int) bool {
	ok := true
	for w := range words {
		full := ^uint64(0)
		if w == len(words)-1 && n%64 != 0 {
			full = (uint64(1) << (uint(n) % 64)) - 1
		}
		ok = vnd.And(ok, words[w] == full)
	}
	return ok
}

func hdup(w []uint64) []uint64 { return append([]uint64(nil), w...) }

// v4State builds an arbitrary valid IPv4Allocator: any start, N addresses, any
// set of outstanding blocks (bits at or above N clear: the bitset invariant).
func v4State() (a *IPv4Allocator, pre []uint64, start uint32, n int) {
	n = vnd.Pick("N", 1, 4096)
	start = vnd.U32("start")
	vnd.Assume(uint64(start)+uint64(n)-1 <= 0xffffffff)
	nw := (n + 63) / 64
	words := vnd.U64s("bitmap", nw)
	if n%64 != 0 {
		vnd.Assume(words[nw-1]>>(uint(n)%64) == 0)
	}
	pre = hdup(words)
	a = &IPv4Allocator{start: start, end: start + uint32(n) - 1, bitmap: bitset.FromWithLength(uint(n), words)}
	return
}

// v4Arg produces the address argument in one of the byte forms a caller can
// pass: nil, 4 bytes, 16 bytes (any content, v4-mapped or not), 5 bytes.
// named reports whether it denotes an IPv4 address, and which.
func v4Arg(label string) (ip net.IP, named bool, v uint32) {
	switch vnd.Pick(label+"form", 0, 3) {
	case 0:
		return nil, false, 0
	case 1:
		b := vnd.Bytes(label, 4)
		return net.IP(b), true, uint32(b[0])<<24 | uint32(b[1])<<16 | uint32(b[2])<<8 | uint32(b[3])
	case 2:
		b := vnd.Bytes(label, 16)
		mapped := b[10] == 0xff
		mapped = vnd.And(mapped, b[11] == 0xff)
		for i := 0; i < 10; i++ {
			mapped = vnd.And(mapped, b[i] == 0)
		}
		return net.IP(b), mapped, uint32(b[12])<<24 | uint32(b[13])<<16 | uint32(b[14])<<8 | uint32(b[15])
	}
	return net.IP(vnd.Bytes(label, 5)), false, 0
}

// VerifH_v4_alloc: one Allocate from an arbitrary valid IPv4Allocator (O2).
func VerifH_v4_alloc() {
	a, pre, start, n := v4State()
	hint, named, hv := v4Arg("hint")

	vnd.Share("alloc4", a)
	got, err := a.Allocate(net.IPNet{IP: hint})
	vnd.Unshare()

	post := a.bitmap.Bytes()
	vnd.Assert(a.bitmap.Len() == uint(n), "C05 v4 bitmap length unchanged")
	vnd.Assert(len(post) == len(pre), "C05 v4 bitmap word count unchanged")
	if len(post) != len(pre) {
		return
	}
	vnd.AssertEngine(vnd.HeldLocks() == 0, "C16 v4 allocator lock released")
	if vnd.Symbolic() {
		vnd.AssertEngine(vnd.Acquisitions(&a.l) <= 1, "C16 one allocator call is one critical section")
	}
	if err != nil {
		vnd.Cover("full")
		if vnd.And(named, vnd.And(hv >= start, hv <= start+uint32(n)-1)) {
			vnd.Assert(hbit(pre, uint64(hv-start)), "C07 v4 a hint naming a free address is honoured, not refused")
		}
		vnd.Assert(err == allocators.ErrNoAddrAvail, "C05 v4 failure reports no address available")
		vnd.Assert(hallSet(pre, n), "C05 v4 fails only when every block is outstanding")
		vnd.Assert(hsameExcept(post, pre, 0, false, true), "C05 v4 failure changes nothing")
		vnd.Assert(hsameExcept(post, pre, 0, false, true), "C04 v4 a failed allocation leaves every outstanding block outstanding")
		return
	}
	vnd.Cover("allocated")
	vnd.Assert(len(got.IP) == 4, "C05 v4 result is a 4-byte address")
	if len(got.IP) != 4 {
		return
	}
	ones, bits := got.Mask.Size()
	vnd.Assert(ones == 32 && bits == 32, "C05 v4 result is a /32")
	v := uint32(got.IP[0])<<24 | uint32(got.IP[1])<<16 | uint32(got.IP[2])<<8 | uint32(got.IP[3])
	end := start + uint32(n) - 1
	vnd.Assert(vnd.And(v >= start, v <= end), "C05 v4 allocation lies in the range")
	i := uint64(v - start)
	vnd.Assume(i < uint64(n))
	vnd.Assert(!hbit(pre, i), "C04 v4 allocated block was free")
	vnd.Assert(hsameExcept(post, pre, i, true, true), "C04 v4 exactly the allocated block becomes outstanding")
	hi := uint64(hv - start)
	inRange := vnd.And(named, vnd.And(hv >= start, hv <= end))
	if inRange {
		if !hbit(pre, hi) {
			vnd.Cover("hint-free")
			vnd.Assert(v == hv, "C07 v4 free hinted address is returned exactly")
		} else {
			vnd.Cover("hint-taken")
		}
	}
	vnd.Observe("ip", got.IP)
}

// VerifH_v4_free: one Free from an arbitrary valid IPv4Allocator (O3).
func VerifH_v4_free() {
	a, pre, start, n := v4State()
	arg, named, av := v4Arg("arg")

	vnd.Share("alloc4", a)
	err := a.Free(net.IPNet{IP: arg, Mask: net.CIDRMask(32, 32)})
	vnd.Unshare()

	post := a.bitmap.Bytes()
	vnd.Assert(a.bitmap.Len() == uint(n), "C06 v4 bitmap length unchanged")
	vnd.Assert(len(post) == len(pre), "C06 v4 bitmap word count unchanged")
	if len(post) != len(pre) {
		return
	}
	vnd.AssertEngine(vnd.HeldLocks() == 0, "C16 v4 allocator lock released")
	if vnd.Symbolic() {
		vnd.AssertEngine(vnd.Acquisitions(&a.l) <= 1, "C16 one allocator call is one critical section")
	}
	end := start + uint32(n) - 1
	inRange := vnd.And(named, vnd.And(av >= start, av <= end))
	i := uint64(av - start)
	if inRange {
		if hbit(pre, i) {
			vnd.Cover("freed")
			vnd.Assert(err == nil, "C06 v4 free of an outstanding block succeeds")
			vnd.Assert(hsameExcept(post, pre, i, true, false), "C06 v4 free releases exactly the named block")
			return
		}
		vnd.Cover("double-free")
	} else {
		vnd.Cover("outside")
	}
	vnd.Assert(err != nil, "C06 v4 free of a block that is not outstanding fails")
	vnd.Assert(hsameExcept(post, pre, 0, false, false), "C06 v4 failed free changes nothing")
}

// VerifH_v4_new: the constructor establishes the invariant with nothing outstanding (O1).
func VerifH_v4_new() {
	n := vnd.Pick("N", 1, 4096)
	sb := vnd.Bytes("start", 4)
	start := uint32(sb[0])<<24 | uint32(sb[1])<<16 | uint32(sb[2])<<8 | uint32(sb[3])
	vnd.Assume(uint64(start)+uint64(n)-1 <= 0xffffffff)
	end := start + uint32(n) - 1
	eb := []byte{byte(end >> 24), byte(end >> 16), byte(end >> 8), byte(end)}
	a, err := NewIPv4Allocator(net.IP(sb), net.IP(eb))
	vnd.Assert(err == nil && a != nil, "C05 v4 constructor accepts a non-empty range")
	if err != nil || a == nil {
		return
	}
	vnd.Cover("constructed")
	vnd.Assert(a.start == start && a.end == end, "C05 v4 constructor range")
	vnd.Assert(a.bitmap.Len() == uint(n), "C05 v4 constructor capacity is exactly N")
	w := a.bitmap.Bytes()
	vnd.Assert(len(w) == (n+63)/64, "C05 v4 constructor word count")
	for i := range w {
		vnd.Assert(w[i] == 0, "C04 v4 constructor starts with nothing outstanding")
	}
	// reversed range is rejected
	if n > 1 {
		_, err2 := NewIPv4Allocator(net.IP(eb), net.IP(sb))
		vnd.Assert(err2 != nil, "C05 v4 constructor rejects an empty range")
	}
}

// VerifH_selftest_bitmap: vacuity twin.
func VerifH_selftest_bitmap() {
	a, pre, _, _ := v4State()
	_, err := a.Allocate(net.IPNet{})
	vnd.Assert(err != nil || pre[0] == 7, "SELFTEST reachable-and-false")
}
