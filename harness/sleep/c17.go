//go:build verif

package sleep

import (
	"time"

	"github.com/coredhcp/coredhcp/internal/vh"
	"github.com/coredhcp/coredhcp/internal/vnd"
	"github.com/insomniacslk/dhcp/dhcpv6"
)

func VerifH_sleep() {
	d := []time.Duration{0, time.Millisecond, time.Second}[vnd.Pick("delay", 0, 2)]
	req := vh.Req4()
	vh.PRL(req)
	resp, ec, ev := vh.Resp4(req)
	n0 := len(resp.Options)
	r, stop := makeSleepHandler4(d)(req, resp)
	vnd.Cover("v4")
	vnd.Assert(r == resp && !stop && vh.Untouched4(resp, req, ec, ev, n0), "C17 sleep4 passes the response on unchanged")

	inner, msg := vh.Req6()
	resp6, _ := vh.Resp6(msg)
	n6 := len(resp6.Options.Options)
	r6, stop6 := makeSleepHandler6(d)(inner, resp6)
	vnd.Cover("v6")
	vnd.Assert(r6 == dhcpv6.DHCPv6(resp6) && !stop6 && len(resp6.Options.Options) == n6, "C17 sleep6 passes the response on unchanged")
}
