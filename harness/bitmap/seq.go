//go:build verif

package bitmap

import (
	"net"

	"github.com/coredhcp/coredhcp/internal/vnd"
	"github.com/coredhcp/coredhcp/plugins/allocators"
)

// Short call sequences from an arbitrary valid state, checked step by step
// against a reference set of outstanding blocks kept by the harness. The
// one-step harnesses quantify over every state that satisfies the
// representation invariant *as this harness knows it*; a change that gives the
// allocator additional state (a cache, a cursor, a "last freed" shortcut) is
// invisible to them because the additional state starts at its zero value.
// Here that state is driven by real calls: every sequence of up to three
// Allocate/Free calls (any hint, any argument) from every bitmap.

// VerifH_v4_seq: IPv4 allocator, pools of up to 64 addresses.
func VerifH_v4_seq() {
	a, pre, start, n := v4State()
	if n > 64 {
		vnd.Assume(false)
	}
	end := start + uint32(n) - 1
	m := pre[0] // reference: bit i set = block i outstanding
	if vnd.Pick("fresh", 0, 1) == 1 {
		// the state the real constructor leaves (whatever else it sets up), nothing outstanding
		sb := []byte{byte(start >> 24), byte(start >> 16), byte(start >> 8), byte(start)}
		eb := []byte{byte(end >> 24), byte(end >> 16), byte(end >> 8), byte(end)}
		fa, err := NewIPv4Allocator(net.IP(sb), net.IP(eb))
		vnd.Assert(err == nil && fa != nil, "C05 v4 constructor accepts a non-empty range")
		if err != nil || fa == nil {
			return
		}
		a, m = fa, 0
	}
	all := ^uint64(0)
	if n < 64 {
		all = uint64(1)<<uint(n) - 1
	}
	steps := vnd.Pick("steps", 1, 3)
	for s := 0; s < steps; s++ {
		ls := string(rune('0' + s))
		op := vnd.Pick("op"+ls, 0, 2)
		if op <= 1 {
			var hint net.IP
			named, hv := false, uint32(0)
			if op == 1 {
				b := vnd.Bytes("hint"+ls, 4)
				hint, named, hv = net.IP(b), true, uint32(b[0])<<24|uint32(b[1])<<16|uint32(b[2])<<8|uint32(b[3])
			}
			vnd.Share("alloc4", a) // access log for the lockset verdict: the calls only, not the harness's own inspection
			got, err := a.Allocate(net.IPNet{IP: hint})
			vnd.Unshare()
			if err != nil {
				vnd.Assert(err == allocators.ErrNoAddrAvail, "C05 sequence: failure reports no address available")
				vnd.Assert(m == all, "C05 sequence: Allocate fails only when every address is outstanding")
			} else {
				vnd.Assert(len(got.IP) == 4, "C05 sequence: result is a 4-byte address")
				if len(got.IP) != 4 {
					return
				}
				v := uint32(got.IP[0])<<24 | uint32(got.IP[1])<<16 | uint32(got.IP[2])<<8 | uint32(got.IP[3])
				vnd.Assert(vnd.And(v >= start, v <= end), "C05 sequence: allocation lies in the range")
				i := uint64(v - start)
				vnd.Assume(i < uint64(n))
				vnd.Assert(m>>i&1 == 0, "C04 sequence: an address is never handed out again without a Free in between")
				vnd.Assert(m>>i&1 == 0, "C06 sequence: after any Free no later Allocate returns an address somebody still holds")
				hi := uint64(hv - start)
				hintFree := vnd.And(named, vnd.And(vnd.And(hv >= start, hv <= end), m>>(hi&63)&1 == 0))
				vnd.Assert(vnd.Implies(hintFree, v == hv), "C07 sequence: a free hinted address is returned exactly")
				m |= uint64(1) << i
			}
		} else {
			var b []byte
			isV4 := true
			switch vnd.Pick("argform"+ls, 0, 2) {
			case 0:
				b = vnd.Bytes("arg"+ls, 4)
			case 1:
				b, isV4 = nil, false // no address at all
			case 2:
				b, isV4 = []byte{0x20, 0x01, 0x0d, 0xb8, 0, 0, 0, 0, 0, 0, 0, 0, 0, 0, 0, 1}, false // an IPv6 address
			}
			var av uint32
			if isV4 {
				av = uint32(b[0])<<24 | uint32(b[1])<<16 | uint32(b[2])<<8 | uint32(b[3])
			}
			vnd.Share("alloc4", a)
			err := a.Free(net.IPNet{IP: net.IP(b), Mask: net.CIDRMask(32, 32)})
			vnd.Unshare()
			i := uint64(av - start)
			held := vnd.And(isV4, vnd.And(vnd.And(av >= start, av <= end), m>>(i&63)&1 == 1))
			if held {
				vnd.Assert(err == nil, "C06 sequence: Free of an outstanding address succeeds")
				m &^= uint64(1) << (i & 63)
			} else {
				vnd.Assert(err != nil, "C06 sequence: Free of an address that is not outstanding fails")
			}
		}
		// one word when the table has its usual shape; bit by bit otherwise (a table that is sized lazily)
		same := true
		if w := a.bitmap.Bytes(); len(w) == 1 {
			same = w[0] == m
		} else {
			for i := 0; i < n; i++ {
				same = vnd.And(same, a.bitmap.Test(uint(i)) == (m>>uint(i)&1 == 1))
			}
		}
		vnd.Assert(same, "C04 sequence: the allocator's bookkeeping equals the set of outstanding addresses after every call")
		vnd.Assert(same, "C05 sequence: the allocator accounts for exactly the addresses handed out and not freed (N addresses, never more than N outstanding)")
		vnd.Assert(same, "C06 sequence: a Free changes the bookkeeping only by releasing the named outstanding address")
	}
	vnd.Cover("sequence")
}

// VerifH_v6_seq: prefix allocator, pools of up to 64 blocks.
func VerifH_v6_seq() {
	a, pre, base, L, page, n := v6State()
	if n > 64 {
		vnd.Assume(false)
	}
	m := pre[0]
	if vnd.Pick("fresh", 0, 1) == 1 {
		fa, err := NewBitmapAllocator(a.containing, page)
		vnd.Assert(err == nil && fa != nil, "C05 v6 constructor accepts a valid pool")
		if err != nil || fa == nil {
			return
		}
		a, m = fa, 0
	}
	all := ^uint64(0)
	if n < 64 {
		all = uint64(1)<<uint(n) - 1
	}
	steps := vnd.Pick("steps", 1, 3)
	for s := 0; s < steps; s++ {
		ls := string(rune('0' + s))
		op := vnd.Pick("op"+ls, 0, 2)
		if op <= 1 {
			var hint net.IPNet
			var h vnd.U128
			if op == 1 {
				b := vnd.Bytes("hint"+ls, 16)
				hint, h = net.IPNet{IP: net.IP(b), Mask: net.CIDRMask(page, 128)}, vnd.U128From(b)
			}
			vnd.Share("alloc6", a)
			got, err := a.Allocate(hint)
			vnd.Unshare()
			if err != nil {
				vnd.Assert(err == allocators.ErrNoAddrAvail, "C05 sequence: failure reports no address available")
				vnd.Assert(m == all, "C05 sequence: Allocate fails only when every block is outstanding")
			} else {
				vnd.Assert(len(got.IP) == 16, "C05 sequence: result is a 16-byte address")
				if len(got.IP) != 16 {
					return
				}
				g := vnd.U128From(got.IP)
				vnd.Assert(vnd.U128Eq(vnd.U128And(g, vnd.U128Not(lowMask(128-L))), base), "C05 sequence: allocation lies in the pool")
				vnd.Assert(vnd.U128Eq(vnd.U128And(g, lowMask(128-page)), vnd.U128{}), "C05 sequence: allocation is aligned to the allocation length")
				idx := vnd.U128Lshr(vnd.U128Sub(g, base), uint(128-page))
				i := idx.Lo
				vnd.Assume(vnd.And(idx.Hi == 0, i < uint64(n)))
				vnd.Assert(m>>i&1 == 0, "C04 sequence: a block is never handed out again without a Free in between")
				vnd.Assert(m>>i&1 == 0, "C06 sequence: after any Free no later Allocate returns a block somebody still holds")
				if op == 1 {
					inPool := vnd.U128Eq(vnd.U128And(h, vnd.U128Not(lowMask(128-L))), base)
					hi := vnd.U128Lshr(vnd.U128Sub(h, base), uint(128-page)).Lo
					vnd.Assert(vnd.Implies(vnd.And(inPool, m>>(hi&63)&1 == 0), i == hi), "C07 sequence: a hint inside a free block is answered with that block")
				}
				m |= uint64(1) << i
			}
		} else {
			b := vnd.Bytes("arg"+ls, 16)
			p := vnd.U128From(b)
			vnd.Share("alloc6", a)
			err := a.Free(net.IPNet{IP: net.IP(b), Mask: net.CIDRMask(page, 128)})
			vnd.Unshare()
			inPool := vnd.U128Eq(vnd.U128And(p, vnd.U128Not(lowMask(128-L))), base)
			i := vnd.U128Lshr(vnd.U128Sub(p, base), uint(128-page)).Lo
			held := vnd.And(inPool, m>>(i&63)&1 == 1)
			if held {
				vnd.Assert(err == nil, "C06 sequence: Free of a prefix inside an outstanding block succeeds")
				m &^= uint64(1) << (i & 63)
			} else {
				vnd.Assert(err != nil, "C06 sequence: Free of a block that is not outstanding fails")
			}
		}
		// one word when the table has its usual shape; bit by bit otherwise (a table that is sized lazily)
		same := true
		if w := a.bitmap.Bytes(); len(w) == 1 {
			same = w[0] == m
		} else {
			for i := 0; i < n; i++ {
				same = vnd.And(same, a.bitmap.Test(uint(i)) == (m>>uint(i)&1 == 1))
			}
		}
		vnd.Assert(same, "C04 sequence: the allocator's bookkeeping equals the set of outstanding blocks after every call")
		vnd.Assert(same, "C05 sequence: the allocator accounts for exactly the blocks handed out and not freed (N blocks, never more than N outstanding)")
		vnd.Assert(same, "C06 sequence: a Free changes the bookkeeping only by releasing the named outstanding block")
	}
	vnd.Cover("sequence")
}
