//go:build verif

package bitmap

import (
	"net"

	"github.com/bits-and-blooms/bitset"
)

// VerifNewAllocator builds a prefix allocator directly from its
// representation (pool, allocation length, bitmap words) so that harnesses in
// other packages can start from an arbitrary valid allocator state.
func VerifNewAllocator(pool net.IPNet, page int, nblocks int, words []uint64) *Allocator {
	return &Allocator{containing: pool, page: page, bitmap: bitset.FromWithLength(uint(nblocks), words)}
}

// VerifWords exposes the bitmap words (aliasing the live state).
func (a *Allocator) VerifWords() []uint64 { return a.bitmap.Bytes() }

// VerifLen is the number of blocks of the pool.
func (a *Allocator) VerifLen() uint { return a.bitmap.Len() }

// VerifNewIPv4Allocator: same for the IPv4 range allocator.
func VerifNewIPv4Allocator(start, end uint32, words []uint64) *IPv4Allocator {
	return &IPv4Allocator{start: start, end: end, bitmap: bitset.FromWithLength(uint(end-start+1), words)}
}

func (a *IPv4Allocator) VerifWords() []uint64 { return a.bitmap.Bytes() }
func (a *IPv4Allocator) VerifLen() uint       { return a.bitmap.Len() }
