//go:build verif

package bitmap

import (
	"math/bits"

	"github.com/coredhcp/coredhcp/internal/vnd"
)

// VerifH_sum_tz64 (run with option real-tz64): the real body of
// bits.TrailingZeros64 equals the summary term for every 64-bit input.
func VerifH_sum_tz64() {
	x := vnd.U64("x")
	vnd.Cover("checked")
	vnd.Assert(bits.TrailingZeros64(x) == vnd.RefTZ64(x), "SUMMARY TrailingZeros64 body equals its summary")
}
