#!/bin/bash
# development helper: thorough tier of every claimed check, one after the other,
# verbose log per check under $LOG (default /tmp/thor), evidence/replays under
# $VERIF_OUT if set (so that a long run does not overwrite /verif/evidence)
cd /verif
LOG=${LOG:-/tmp/thor}; mkdir -p $LOG
for p in ${@:-$(python3 -c "import json;print(' '.join(c['property_id'] for c in json.load(open('/verif/MANIFEST.json'))['checks']))")}; do
  s=$(date +%s)
  bin/gosymex check -property $p -tier thorough > $LOG/$p.log 2>&1; rc=$?
  echo "== $p rc=$rc $(( $(date +%s) - s ))s :: $(tail -1 $LOG/$p.log | cut -c1-260)"
  grep "^VIOLATION\|^INCONCLUSIVE\|^VACUOUS\|^ENCODER\|^KNOWN\|^HARNESS\|^CONFIG" $LOG/$p.log | head -8 | cut -c1-250
done
