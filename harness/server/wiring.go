//go:build verif

package server

import (
	"errors"
	"net"
	"syscall"

	"github.com/coredhcp/coredhcp/config"
	"github.com/coredhcp/coredhcp/handler"
	"github.com/coredhcp/coredhcp/internal/vnd"
	"github.com/coredhcp/coredhcp/plugins"
	"github.com/google/gopacket"
	"github.com/google/gopacket/layers"
	"github.com/insomniacslk/dhcp/dhcpv4"
	"github.com/insomniacslk/dhcp/dhcpv6"
	"github.com/insomniacslk/dhcp/iana"
	"golang.org/x/net/ipv4"
	"golang.org/x/net/ipv6"
)

// ---- gopacket / syscall boundary (engine only) ----

type fakeLayer struct{}

func (fakeLayer) LayerType() gopacket.LayerType { return 0 }
func (fakeLayer) LayerContents() []byte          { return nil }
func (fakeLayer) LayerPayload() []byte           { return nil }
func (fakeLayer) SerializeTo(b gopacket.SerializeBuffer, opts gopacket.SerializeOptions) error {
	return nil
}

type fakePacket struct{ gopacket.Packet }

func (fakePacket) Layer(gopacket.LayerType) gopacket.Layer { return fakeLayer{} }

var (
	serialized  []gopacket.SerializableLayer
	packetBytes []byte
	sentTo      []syscall.Sockaddr
	sockClosed  int
)

func stubNewPacket(data []byte, first gopacket.Decoder, opts gopacket.DecodeOptions) gopacket.Packet {
	packetBytes = data
	return fakePacket{}
}

func stubSerializeLayers(w gopacket.SerializeBuffer, opts gopacket.SerializeOptions, ls ...gopacket.SerializableLayer) error {
	serialized = ls
	return nil
}

func stubSocket(domain, typ, proto int) (int, error) {
	if vnd.Pick("socketfails", 0, 1) == 1 {
		return -1, errors.New("operation not permitted")
	}
	return 7, nil
}
func stubSetsockoptInt(fd, level, opt, value int) error { return nil }
func stubSendto(fd int, p []byte, flags int, to syscall.Sockaddr) error {
	sentTo = append(sentTo, to)
	return nil
}
func stubClose(fd int) error { sockClosed++; return nil }

// VerifH_send_ethernet: the frame handed to the serialiser for the link-level
// unicast branch (C15), from an arbitrary response satisfying R4.
func VerifH_send_ethernet() {
	serialized, sentTo, sockClosed = nil, nil, 0
	hw := make(net.HardwareAddr, 16)
	copy(hw, vnd.Bytes("chaddr", 16))
	resp := &dhcpv4.DHCPv4{OpCode: dhcpv4.OpcodeBootReply, HWType: iana.HWTypeEthernet, ClientHWAddr: hw[:vnd.Pick("hlen", 0, 16)], Options: dhcpv4.Options{},
		ClientIPAddr: make(net.IP, 4), YourIPAddr: net.IP(vnd.Bytes("yiaddr", 4)), ServerIPAddr: net.IP(vnd.Bytes("siaddr", 4)), GatewayIPAddr: make(net.IP, 4)}
	resp.Options[uint8(dhcpv4.OptionDHCPMessageType)] = []byte{byte(dhcpv4.MessageTypeOffer)}
	iface := net.Interface{Index: vnd.Range("ifindex", 1, 1<<20), HardwareAddr: net.HardwareAddr(vnd.Bytes("ifmac", 6))}

	err := sendEthernet(iface, resp)

	if vnd.Pick("socketfails", 0, 1) == 1 {
		vnd.Cover("socket-error")
		vnd.Assert(err != nil && len(sentTo) == 0, "C15 no frame without a socket")
		return
	}
	vnd.Cover("frame-sent")
	vnd.Assert(err == nil, "C15 link-level send succeeds")
	vnd.Assert(len(serialized) == 4, "C15 frame is Ethernet/IPv4/UDP/DHCP")
	if len(serialized) != 4 {
		return
	}
	eth, ok1 := serialized[0].(*layers.Ethernet)
	ip, ok2 := serialized[1].(*layers.IPv4)
	udp, ok3 := serialized[2].(*layers.UDP)
	vnd.Assert(ok1 && ok2 && ok3, "C15 frame layers have the expected types")
	if !(ok1 && ok2 && ok3) {
		return
	}
	vnd.Assert(bytesAre(eth.DstMAC, resp.ClientHWAddr) && bytesAre(eth.SrcMAC, iface.HardwareAddr), "C15 frame is addressed to the client's hardware address")
	vnd.Assert(bytesAre(ip.DstIP, resp.YourIPAddr) && bytesAre(ip.SrcIP, resp.ServerIPAddr), "C15 frame is addressed to the offered address")
	vnd.Assert(udp.SrcPort == 67 && udp.DstPort == 68, "C15 frame goes from the server port to the client port")
	vnd.Assert(bytesAre(packetBytes, resp.ToBytes()), "C15 frame carries the response")
	vnd.Assert(len(sentTo) == 1, "C15 exactly one frame is sent")
	if len(sentTo) == 1 {
		ll, ok := sentTo[0].(*syscall.SockaddrLinklayer)
		vnd.Assert(ok && ll.Ifindex == iface.Index, "C15 frame leaves on the chosen interface")
	}
	vnd.Assert(sockClosed == 1, "C15 the raw socket is closed again")
}

// ---- listen4 / listen6 ----

var (
	flagIface4, flagIface6 bool
	joined                 []*net.Interface
	lookedUp               []string
)

func stubUDPConn(iface string, addr *net.UDPAddr) (*net.UDPConn, error) {
	if vnd.Pick("bindfails", 0, 1) == 1 {
		return nil, errors.New("address already in use")
	}
	return new(net.UDPConn), nil
}
func stubNewPacketConn4(c net.PacketConn) *ipv4.PacketConn { return new(ipv4.PacketConn) }
func stubNewPacketConn6(c net.PacketConn) *ipv6.PacketConn { return new(ipv6.PacketConn) }
func stubSetCM4(c *ipv4.PacketConn, cf ipv4.ControlFlags, on bool) error {
	if cf == ipv4.FlagInterface && on {
		flagIface4 = true
	}
	return nil
}
func stubSetCM6(c *ipv6.PacketConn, cf ipv6.ControlFlags, on bool) error {
	if cf == ipv6.FlagInterface && on {
		flagIface6 = true
	}
	return nil
}
func stubJoin(ifi *net.Interface, group net.Addr) error {
	joined = append(joined, ifi)
	return nil
}

func stubIfByName(name string) (*net.Interface, error) {
	lookedUp = append(lookedUp, name)
	if name == "missing0" {
		return nil, errors.New("no such network interface")
	}
	return &net.Interface{Index: 42, Name: name}, nil
}

// VerifH_listen: a listener remembers its interface, or enables per-packet
// interface information (assumption E1 of the HandleMsg harnesses) (C15).
func VerifH_listen() {
	flagIface4, flagIface6, lookedUp, joined = false, false, nil, nil
	zone := []string{"", "eth7", "missing0"}[vnd.Pick("zone", 0, 2)]
	a := &net.UDPAddr{IP: net.IP(vnd.Bytes("ip", 4)), Port: 67, Zone: zone}
	mc4 := vnd.And(a.IP[0] >= 224, a.IP[0] <= 239)
	l4, err := listen4(a)
	if vnd.Pick("bindfails", 0, 1) == 1 {
		vnd.Cover("bind-error")
		vnd.Assert(err != nil && l4 == nil, "C15 a listener that cannot bind is an error")
		return
	}
	switch zone {
	case "":
		vnd.Cover("unbound")
		vnd.Assert(err == nil && l4 != nil && l4.Interface.Index == 0, "C15 a listener without zone is not bound")
		vnd.Assert(flagIface4, "C15 an unbound listener asks for the receiving interface of every datagram")
	case "eth7":
		vnd.Cover("bound")
		vnd.Assert(err == nil && l4 != nil && l4.Interface.Index == 42, "C15 a listener with zone remembers its interface")
	default:
		vnd.Cover("missing-interface")
		vnd.Assert(err != nil, "C15 a listener on a missing interface is an error")
	}
	if err == nil {
		if mc4 {
			vnd.Cover("multicast")
			vnd.Assert(len(joined) == 1 && (joined[0] == nil) == (zone == ""), "C15 a multicast listen address joins the group on the listener's interface")
		} else {
			vnd.Assert(len(joined) == 0, "C15 unicast listen addresses join no group")
		}
	}
	joined = nil
	a6 := &net.UDPAddr{IP: net.IP(vnd.Bytes("ip6", 16)), Port: 547, Zone: zone}
	vnd.Assume(a6.IP.To4() == nil) // an IPv6 listen address (the configuration rejects others, C18)
	l6, err6 := listen6(a6)
	if err6 == nil {
		vnd.Assert((len(joined) == 1) == (a6.IP[0] == 0xff), "C15 a DHCPv6 listener joins the group exactly for multicast addresses")
	}
	switch zone {
	case "":
		vnd.Assert(err6 == nil && l6 != nil && l6.Interface.Index == 0 && flagIface6, "C15 an unbound DHCPv6 listener asks for the receiving interface")
	case "eth7":
		vnd.Assert(err6 == nil && l6 != nil && l6.Interface.Index == 42, "C15 a DHCPv6 listener with zone remembers its interface")
	default:
		vnd.Assert(err6 != nil, "C15 a DHCPv6 listener on a missing interface is an error")
	}
}

// ---- Start: every listener of a protocol holds the slice LoadPlugins returned ----

var tags []int

func tagged4(tag int) handler.Handler4 {
	return func(req, resp *dhcpv4.DHCPv4) (*dhcpv4.DHCPv4, bool) { tags = append(tags, tag); return resp, false }
}
func tagged6(tag int) handler.Handler6 {
	return func(req, resp dhcpv6.DHCPv6) (dhcpv6.DHCPv6, bool) { tags = append(tags, tag); return resp, false }
}

func VerifH_start() {
	plugins.RegisteredPlugins = make(map[string]*plugins.Plugin)
	plugins.RegisterPlugin(&plugins.Plugin{Name: "a", Setup4: func(args ...string) (handler.Handler4, error) { return tagged4(1), nil },
		Setup6: func(args ...string) (handler.Handler6, error) { return tagged6(101), nil }})
	plugins.RegisterPlugin(&plugins.Plugin{Name: "b", Setup4: func(args ...string) (handler.Handler4, error) { return tagged4(2), nil }})
	plugins.RegisterPlugin(&plugins.Plugin{Name: "c", Setup6: func(args ...string) (handler.Handler6, error) { return tagged6(103), nil }})
	n4, n6 := vnd.Pick("listeners4", 0, 2), vnd.Pick("listeners6", 0, 2)
	conf := &config.Config{}
	pl := []config.PluginConfig{{Name: "a"}, {Name: "b"}, {Name: "c"}}
	if n4 > 0 {
		conf.Server4 = &config.ServerConfig{Plugins: pl}
		for i := 0; i < n4; i++ {
			conf.Server4.Addresses = append(conf.Server4.Addresses, net.UDPAddr{IP: net.IP{10, 0, 0, byte(i)}, Port: 67})
		}
	}
	if n6 > 0 {
		conf.Server6 = &config.ServerConfig{Plugins: pl}
		for i := 0; i < n6; i++ {
			conf.Server6.Addresses = append(conf.Server6.Addresses, net.UDPAddr{IP: net.ParseIP("2001:db8::1"), Port: 547})
		}
	}
	srv, err := Start(conf)
	if vnd.Pick("bindfails", 0, 1) == 1 && n4+n6 > 0 {
		vnd.Cover("bind-error")
		vnd.Assert(err != nil && srv == nil, "C13 a listener that cannot bind aborts start-up")
		return
	}
	if n4 == 0 && n6 == 0 {
		vnd.Cover("no-protocol")
		vnd.Assert(err != nil, "C13 a configuration without protocol section does not start")
		return
	}
	vnd.Cover("started")
	vnd.Assert(err == nil && srv != nil, "C13 a valid configuration starts")
	if err != nil || srv == nil {
		return
	}
	vnd.Assert(len(srv.listeners) == n4+n6, "C13 one listener per configured address")
	c4, c6 := 0, 0
	for _, l := range srv.listeners {
		switch x := l.(type) {
		case *listener4:
			c4++
			tags = nil
			for _, h := range x.handlers {
				h(nil, nil)
			}
			vnd.Assert(len(tags) == 2 && tags[0] == 1 && tags[1] == 2, "C13 every DHCPv4 listener holds exactly the configured DHCPv4 handlers in order")
		case *listener6:
			c6++
			tags = nil
			for _, h := range x.handlers {
				h(nil, nil)
			}
			vnd.Assert(len(tags) == 2 && tags[0] == 101 && tags[1] == 103, "C13 every DHCPv6 listener holds exactly the configured DHCPv6 handlers in order")
		}
	}
	vnd.Assert(c4 == n4 && c6 == n6, "C13 listeners per protocol")
}

// JoinGroup is a method of the unexported dgramOpt types; the stubs take the
// receiver as an opaque first parameter.
func stubJoin4(c *ipv4.PacketConn, ifi *net.Interface, group net.Addr) error { return stubJoin(ifi, group) }
func stubJoin6(c *ipv6.PacketConn, ifi *net.Interface, group net.Addr) error { return stubJoin(ifi, group) }
