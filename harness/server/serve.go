//go:build verif

package server

import (
	"errors"
	"net"
	"sync"

	"github.com/insomniacslk/dhcp/dhcpv4"
	"github.com/insomniacslk/dhcp/dhcpv6"

	"github.com/coredhcp/coredhcp/internal/vnd"
	"golang.org/x/net/ipv4"
	"golang.org/x/net/ipv6"
)

// The receive loops (C16, L4). A buffer comes back from the pool with whatever
// length its previous user left it (the handlers return b[:n]); the loop must
// hand every read a full-size buffer, otherwise a datagram longer than the one
// the buffer carried before is silently truncated - which datagram is hit
// depends on the schedule.

var (
	readCalls int
	readLen   int
	readN     int // what the shim's ReadFrom reports as the datagram length
	seenLen   int // length of the slice the handler goroutine hands to the parser
)

func stubSeen4(data []byte) (*dhcpv4.DHCPv4, error) {
	seenLen = len(data)
	return nil, errors.New("not parsed in this harness")
}

func stubSeen6(data []byte) (dhcpv6.DHCPv6, error) {
	seenLen = len(data)
	return nil, errors.New("not parsed in this harness")
}

func stubPoolGet(p *sync.Pool) any {
	// lengths are case-split (the engine keeps slice bounds concrete): empty, a
	// short datagram, a typical one, one byte short of full, full
	k := []int{0, 1, 300, MaxDatagram - 1, MaxDatagram}[vnd.Pick("recycledlen", 0, 4)]
	b := make([]byte, MaxDatagram)
	b = b[:k]
	return &b
}

func (l *listener4) ReadFrom(b []byte) (int, *ipv4.ControlMessage, net.Addr, error) {
	readCalls++
	if readCalls > 1 {
		return 0, nil, nil, net.ErrClosed
	}
	readLen = len(b)
	return readN, nil, &net.UDPAddr{IP: net.IP{192, 0, 2, 1}, Port: 68}, nil
}

func (l *listener6) ReadFrom(b []byte) (int, *ipv6.ControlMessage, net.Addr, error) {
	readCalls++
	if readCalls > 1 {
		return 0, nil, nil, net.ErrClosed
	}
	readLen = len(b)
	return readN, nil, &net.UDPAddr{IP: net.ParseIP("2001:db8::1"), Port: 546}, nil
}

func (l *listener4) LocalAddr() net.Addr { return &net.UDPAddr{} }
func (l *listener6) LocalAddr() net.Addr { return &net.UDPAddr{} }

// VerifH_serve: one iteration of the real Serve loop on a recycled buffer of any length.
func VerifH_serve() {
	readCalls, readLen, seenLen = 0, -1, -1
	readN = []int{0, 1, 240, 576}[vnd.Pick("datagramlen", 0, 3)]
	var err error
	if vnd.Pick("proto", 0, 1) == 0 {
		err = (&listener4{}).Serve()
	} else {
		err = (&listener6{}).Serve()
	}
	vnd.Cover("served")
	vnd.Assert(readCalls == 2, "C16 the receive loop keeps reading after a datagram")
	vnd.Assert(err == nil, "C16 the receive loop ends cleanly when the socket is closed")
	vnd.Assert(readLen == MaxDatagram, "C16 every receive gets a full-size buffer, whatever length the recycled buffer was left with")
	vnd.Assert(readLen == MaxDatagram, "C13 what the handler chain is run on is the datagram as received (no truncation by a recycled buffer)")
	if readLen < readN {
		return
	}
	// the datagram is handled in its own goroutine, which gets exactly the bytes received
	vnd.RunGoroutines()
	vnd.Assert(seenLen == readN, "C16 the handler goroutine is given exactly the received datagram")
	vnd.Assert(seenLen == readN, "C13 what the handler chain is run on is the datagram as received (all of it)")
	vnd.Assert(seenLen == readN, "C11 what is parsed and answered is the datagram as received, not bytes an earlier datagram left in the buffer")
	vnd.Assert(seenLen == readN, "C12 what is parsed and answered is the datagram as received, not bytes an earlier datagram left in the buffer")
}
