//go:build verif

package vc19

import (
	"github.com/coredhcp/coredhcp/internal/vh"
	"github.com/coredhcp/coredhcp/internal/vnd"
	"github.com/insomniacslk/dhcp/dhcpv4"
	"github.com/insomniacslk/dhcp/dhcpv6"
)

// From configuration text to wire bytes, through the real Setup4/Setup6 and the
// handler they return: what an accepted configuration puts into a reply is the
// configured value (C17 "exactly the configured value", C19 "cannot corrupt
// replies"). Boundary and non-canonical spellings on purpose: the last value a
// 16/32-bit field holds, fractions of a second, a CIDR with host bits set,
// v4-mapped spellings, several values.

type swCase struct {
	plugin string
	args   []string
	code   uint16
	want   []byte
}

func labels(names ...string) (b []byte) {
	for _, n := range names {
		start := 0
		for i := 0; i <= len(n); i++ {
			if i == len(n) || n[i] == '.' {
				b = append(b, byte(i-start))
				b = append(b, n[start:i]...)
				start = i + 1
			}
		}
		b = append(b, 0)
	}
	return
}

var swCases4 = []swCase{
	{"dns", []string{"8.8.8.8", "1.1.1.1", "::ffff:9.9.9.9"}, 6, []byte{8, 8, 8, 8, 1, 1, 1, 1, 9, 9, 9, 9}},
	{"dns", []string{"8.8.4.4"}, 6, []byte{8, 8, 4, 4}},
	{"router", []string{"192.0.2.1", "192.0.2.2"}, 3, []byte{192, 0, 2, 1, 192, 0, 2, 2}},
	{"netmask", []string{"255.255.254.0"}, 1, []byte{255, 255, 254, 0}},
	{"mtu", []string{"1500"}, 26, []byte{0x05, 0xdc}},
	{"mtu", []string{"65535"}, 26, []byte{0xff, 0xff}},
	{"mtu", []string{"68"}, 26, []byte{0, 68}},
	{"lease_time", []string{"4294967295s500ms"}, 51, []byte{0xff, 0xff, 0xff, 0xff}},
	{"lease_time", []string{"1h30m"}, 51, []byte{0, 0, 0x15, 0x18}},
	{"ipv6only", []string{"300s"}, 108, []byte{0, 0, 0x01, 0x2c}},
	{"ipv6only", []string{"1h0m0.9s"}, 108, []byte{0, 0, 0x0e, 0x10}},
	{"ipv6only", []string{"4294967295s999ms"}, 108, []byte{0xff, 0xff, 0xff, 0xff}},
	{"staticroute", []string{"10.17.0.0/12,192.0.2.1"}, 121, []byte{12, 10, 16, 192, 0, 2, 1}},
	{"staticroute", []string{"192.168.1.77/25,10.0.0.1", "0.0.0.0/0,192.0.2.254"}, 121, []byte{25, 192, 168, 1, 0, 10, 0, 0, 1, 0, 192, 0, 2, 254}},
	{"staticroute", []string{"10.1.2.3/32,::ffff:192.0.2.2"}, 121, []byte{32, 10, 1, 2, 3, 192, 0, 2, 2}},
	{"searchdomains", []string{"example.com", "sub.example.org"}, 119, labels("example.com", "sub.example.org")},
	{"nbp", []string{"tftp://192.0.2.5/boot.efi"}, 66, []byte("192.0.2.5")},
	{"nbp", []string{"tftp://192.0.2.5/boot.efi"}, 67, []byte("/boot.efi")},
	{"nbp", []string{"http://boot.example.com/ipxe?params=x"}, 67, []byte("http://boot.example.com/ipxe?params=x")},
	{"server_id", []string{"192.0.2.1"}, 54, []byte{192, 0, 2, 1}},
}

var swCases6 = []swCase{
	{"dns", []string{"2001:db8::1", "2001:db8::2"}, 23, []byte{0x20, 0x01, 0x0d, 0xb8, 0, 0, 0, 0, 0, 0, 0, 0, 0, 0, 0, 1, 0x20, 0x01, 0x0d, 0xb8, 0, 0, 0, 0, 0, 0, 0, 0, 0, 0, 0, 2}},
	{"searchdomains", []string{"example.com", "sub.example.org"}, 24, labels("example.com", "sub.example.org")},
	{"nbp", []string{"http://boot.example.com/ipxe?params=a%20b"}, 59, []byte("http://boot.example.com/ipxe?params=a%20b")},
	{"nbp", []string{"http://boot.example.com/ipxe?params=a%20b"}, 60, []byte{0, 3, 'a', ' ', 'b'}},
	{"server_id", []string{"LL", "00:11:22:33:44:55"}, 2, []byte{0, 3, 0, 1, 0x00, 0x11, 0x22, 0x33, 0x44, 0x55}},
	{"server_id", []string{"duid-ll", "00:11:22:33:44:55:66:77"}, 2, []byte{0, 3, 0, 1, 0x00, 0x11, 0x22, 0x33, 0x44, 0x55, 0x66, 0x77}},
}

// swReject4: one past the largest value the option's wire field holds (and a
// mask with a hole): accepting one of these means sending something else.
var swReject4 = []swCase{
	{"mtu", []string{"65536"}, 26, nil},
	{"lease_time", []string{"4294967296s"}, 51, nil},
	{"lease_time", []string{"1193046h28m16s"}, 51, nil},
	{"ipv6only", []string{"4294967296s"}, 108, nil},
	{"netmask", []string{"255.0.255.0"}, 1, nil},
	{"mtu", []string{"-1"}, 26, nil},
}

// VerifH_setupwire4: configuration text -> option bytes, DHCPv4.
func VerifH_setupwire4() {
	ci := vnd.Pick("case", 0, len(swCases4)+len(swReject4)-1)
	if ci >= len(swCases4) {
		c := swReject4[ci-len(swCases4)]
		_, err := subjects4[c.plugin].p.Setup4(c.args...)
		vnd.Cover("refused")
		vnd.Assert(err != nil, "C17 a value the option's wire field cannot carry is refused at start-up, not sent as something else")
		return
	}
	c := swCases4[ci]
	h, err := subjects4[c.plugin].p.Setup4(c.args...)
	vnd.Assert(err == nil && h != nil, "C19 a configuration that can be honoured is accepted")
	vnd.Assert(err == nil && h != nil, "C17 a valid configuration is accepted")
	if err != nil || h == nil {
		return
	}
	req := vh.Req4()
	req.Options[uint8(dhcpv4.OptionParameterRequestList)] = []byte{byte(c.code)}
	resp, _, _ := vh.Resp4(req, uint8(c.code))
	r, _ := h(req, resp)
	vnd.Assert(r == resp, "C17 the option plugin answers a client that lists its option")
	if r == nil {
		return
	}
	vnd.Cover("emitted")
	got, present := r.Options[uint8(c.code)]
	ok := present && vh.BytesAre(got, c.want)
	vnd.Assert(ok, "C17 the option carries exactly the configured value in its wire encoding (from the configuration text)")
	vnd.Assert(ok, "C19 what an accepted configuration puts on the wire is the configured value")
	if c.plugin == "server_id" {
		si := r.ServerIPAddr.To4()
		vnd.Assert(si != nil && vh.BytesAre(si, c.want), "C19 the configured server address is the reply's siaddr")
	}
}

// VerifH_setupwire6: configuration text -> option bytes, DHCPv6.
func VerifH_setupwire6() {
	c := swCases6[vnd.Pick("case", 0, len(swCases6)-1)]
	h, err := subjects6[c.plugin].p.Setup6(c.args...)
	vnd.Assert(err == nil && h != nil, "C19 a configuration that can be honoured is accepted")
	vnd.Assert(err == nil && h != nil, "C17 a valid configuration is accepted")
	if err != nil || h == nil {
		return
	}
	inner, msg := vh.Req6()
	if c.plugin == "server_id" {
		msg.MessageType = dhcpv6.MessageTypeSolicit // the types that must name the server are C14's subject
	}
	msg.AddOption(dhcpv6.OptRequestedOption(dhcpv6.OptionCode(c.code)))
	resp, _ := vh.Resp6(msg, c.code)
	r, _ := h(inner, resp)
	vnd.Assert(r != nil, "C17 the option plugin answers a client that lists its option")
	if r == nil {
		return
	}
	vnd.Cover("emitted")
	m, isMsg := r.(*dhcpv6.Message)
	vnd.Assert(isMsg, "C17 the response stays a client-facing message")
	if !isMsg {
		return
	}
	opts := m.Options.Get(dhcpv6.OptionCode(c.code))
	ok := len(opts) == 1 && vh.BytesAre(opts[0].ToBytes(), c.want)
	vnd.Assert(ok, "C17 the option carries exactly the configured value in its wire encoding (from the configuration text)")
	vnd.Assert(ok, "C19 what an accepted configuration puts on the wire is the configured value")
}
