package main

import (
	"fmt"
	"go/token"
	"go/types"
	"strconv"
	"strings"
	"time"

	"golang.org/x/tools/go/ssa"
)

const vndPath = "github.com/coredhcp/coredhcp/internal/vnd."

type intrinsicFn func(in *Interp, st *State, fn *ssa.Function, args []Value, retTo ssa.Value, pos token.Pos) (Value, bool)

func (in *Interp) strOf(st *State, v Value) string {
	s, ok := v.(Slice)
	if !ok {
		return "<non-string>"
	}
	b := make([]byte, s.Len)
	for i := range b {
		t, ok := in.elem(st, s, i).(*Term)
		if !ok || !t.IsConst() {
			return "<symbolic>"
		}
		b[i] = byte(t.U64())
	}
	return string(b)
}

func (in *Interp) concreteStr(st *State, v Value) (string, bool) {
	s, ok := v.(Slice)
	if !ok {
		return "", false
	}
	b := make([]byte, s.Len)
	for i := range b {
		t, ok := in.elem(st, s, i).(*Term)
		if !ok || !t.IsConst() {
			return "", false
		}
		b[i] = byte(t.U64())
	}
	return string(b), true
}

func (in *Interp) u128(v Value) *Term {
	s := v.(Struct)
	return in.tf.Concat(s.F[0].(*Term), s.F[1].(*Term))
}
func (in *Interp) fromU128(t *Term) Value {
	return Struct{F: []Value{in.tf.Extract(127, 64, t), in.tf.Extract(63, 0, t)}}
}

func (in *Interp) assume(st *State, c *Term) {
	if c.IsFalse() {
		panic(endPath{kind: "infeasible", msg: "assume false"})
	}
	if c.IsTrue() {
		return
	}
	if v, ok := st.known[c.id]; ok {
		if !v {
			panic(endPath{kind: "infeasible", msg: "assume contradicts path"})
		}
		return
	}
	switch in.sol.CheckWith(c) {
	case "unsat":
		panic(endPath{kind: "infeasible", msg: "assume unsat"})
	case "unknown":
		panic(endPath{kind: "solver-unknown", msg: "assume"})
	}
	st.pc = append(st.pc, c)
	in.setKnown(st, c, true)
	in.sol.Assert(c) // asserted at the current depth: holds for the rest of this path
}

func (in *Interp) setKnown(st *State, c *Term, v bool) {
	if c.Op == "not" {
		st.known[c.Args[0].id] = !v
		return
	}
	st.known[c.id] = v
}

// addConstraint conjoins c to the path without a feasibility check (used for
// the typing constraints of fresh draws, which are always satisfiable).
func (in *Interp) addConstraint(st *State, c *Term) {
	st.pc = append(st.pc, c)
	in.sol.Assert(c)
}

func (in *Interp) intrinsicFor(fn *ssa.Function) intrinsicFn {
	if h, ok := in.intrC[fn]; ok {
		return h
	}
	h := in.findIntrinsic(fn)
	in.intrC[fn] = h
	return h
}

func (in *Interp) findIntrinsic(fn *ssa.Function) intrinsicFn {
	name := fn.String()
	if fn.Name() == "init" && fn.Signature.Recv() == nil && fn.Signature.Params().Len() == 0 && fn.Synthetic != "" {
		return depInit
	}
	if strings.HasPrefix(name, vndPath) {
		return vndIntrinsic
	}
	if h, ok := intrinsicTable[name]; ok {
		return h
	}
	if fn.Pkg != nil {
		pp := fn.Pkg.Pkg.Path()
		if pp == "github.com/sirupsen/logrus" || pp == "github.com/coredhcp/coredhcp/logger" {
			return logIntrinsic
		}
		if pp == "log" {
			return stdLogIntrinsic
		}
	}
	return nil
}

// depInit skips the init of a dependency package when called from inside
// another package's init: every package is initialised lazily by the first
// access to one of its own globals.
func depInit(in *Interp, st *State, fn *ssa.Function, args []Value, retTo ssa.Value, pos token.Pos) (Value, bool) {
	if len(st.stack) > 0 && st.stack[0].initCall {
		return nil, true
	}
	return nil, false
}

func logIntrinsic(in *Interp, st *State, fn *ssa.Function, args []Value, retTo ssa.Value, pos token.Pos) (Value, bool) {
	n := fn.Name()
	if strings.HasPrefix(n, "Fatal") {
		panic(endPath{kind: "exit", msg: "log." + n + " terminates the process", pos: pos})
	}
	if strings.HasPrefix(n, "Panic") {
		in.goPanic(st, "log."+n, pos, nil)
	}
	sig := fn.Signature
	switch sig.Results().Len() {
	case 0:
		return nil, true
	case 1:
		rt := sig.Results().At(0).Type()
		if _, ok := rt.Underlying().(*types.Pointer); ok {
			id := st.alloc(Struct{}, "opaque logger")
			return Ptr{Obj: id}, true
		}
		return in.zero(rt), true
	}
	return in.zero(sig.Results()), true
}

func stdLogIntrinsic(in *Interp, st *State, fn *ssa.Function, args []Value, retTo ssa.Value, pos token.Pos) (Value, bool) {
	n := fn.Name()
	if strings.HasPrefix(n, "Fatal") {
		panic(endPath{kind: "exit", msg: "log." + n + " terminates the process", pos: pos})
	}
	if strings.HasPrefix(n, "Panic") {
		in.goPanic(st, "log."+n, pos, nil)
	}
	if strings.HasPrefix(n, "Print") {
		return nil, true
	}
	return nil, false
}

func lockKey(p Ptr) string { return pathKey(p.Obj, p.Path) }

func (in *Interp) heldString(st *State) string {
	if len(st.lockOrder) == 0 {
		return ""
	}
	var parts []string
	for _, k := range st.lockOrder {
		ls := st.locks[k]
		name := in.lockName(st, k)
		if ls.writer {
			parts = append(parts, "W:"+name)
		} else if ls.readers > 0 {
			parts = append(parts, "R:"+name)
		}
	}
	return strings.Join(parts, ",")
}

func (in *Interp) lockName(st *State, key string) string {
	var obj int
	fmt.Sscanf(key, "%d", &obj)
	if obj >= 0 && obj < len(st.heap) {
		if n, ok := st.shared[obj]; ok {
			return n + key[strings.Index(key, " "):]
		}
		return st.heap[obj].Tag + key[strings.Index(key, " "):]
	}
	return key
}

// logAccess records a read/write of a shared heap cell with the held lock set.
func (in *Interp) logAccess(st *State, obj int, path []int, write bool, pos token.Pos) {
	if len(st.shared) == 0 {
		return
	}
	name, ok := st.shared[obj]
	if !ok {
		return
	}
	// the mutex word itself is not data
	cell := name
	if len(path) > 0 {
		cell += fmt.Sprint(path[:1])
	}
	fnName := ""
	if len(st.stack) > 0 {
		fnName = st.top().fn.String()
	}
	a := access{Cell: cell, Write: write, Held: in.heldString(st), Pos: pos, Fn: fnName}
	// dedupe consecutive identical records
	if n := len(st.accesses); n > 0 {
		l := st.accesses[n-1]
		if l.Cell == a.Cell && l.Write == a.Write && l.Held == a.Held && l.Fn == a.Fn {
			return
		}
	}
	st.accesses = append(st.accesses, a)
}

// markShared walks the object graph from v and marks every reachable heap object.
func (in *Interp) markShared(st *State, v Value, name string, depth int) {
	if depth > 6 {
		return
	}
	switch x := v.(type) {
	case Ptr:
		if x.IsNil() {
			return
		}
		if _, ok := st.shared[x.Obj]; ok {
			return
		}
		st.shared[x.Obj] = name
		in.markShared(st, st.heap[x.Obj].Cell, name, depth+1)
	case Slice:
		if x.Obj < 0 {
			return
		}
		if _, ok := st.shared[x.Obj]; ok {
			return
		}
		st.shared[x.Obj] = name + ".[]"
		in.markShared(st, st.heap[x.Obj].Cell, name+".[]", depth+1)
	case MapRef:
		if x.Nil {
			return
		}
		if _, ok := st.shared[x.Obj]; ok {
			return
		}
		st.shared[x.Obj] = name + ".map"
		md := st.heap[x.Obj].Cell.(MapData)
		for _, e := range md.Vals {
			in.markShared(st, e, name+".map[]", depth+1)
		}
	case Struct:
		for i, f := range x.F {
			in.markShared(st, f, fmt.Sprintf("%s.%d", name, i), depth+1)
		}
	case Array:
		if len(x.E) > 0 {
			if _, isT := x.E[0].(*Term); isT {
				return
			}
		}
		for _, e := range x.E {
			in.markShared(st, e, name+".[]", depth+1)
		}
	case Iface:
		if x.T != nil {
			in.markShared(st, x.V, name, depth+1)
		}
	}
}

func vndIntrinsic(in *Interp, st *State, fn *ssa.Function, args []Value, retTo ssa.Value, pos token.Pos) (Value, bool) {
	tf := in.tf
	switch fn.Name() {
	case "Symbolic":
		return tf.True(), true
	case "U8", "U16", "U32", "U64", "Int":
		w := map[string]int{"U8": 8, "U16": 16, "U32": 32, "U64": 64, "Int": 64}[fn.Name()]
		l := in.strOf(st, args[0])
		t := in.fresh(l, w)
		st.draws = append(st.draws, draw{Label: l, Kind: fn.Name(), Terms: []*Term{t}})
		return t, true
	case "Bool":
		l := in.strOf(st, args[0])
		t := in.fresh(l, 1)
		st.draws = append(st.draws, draw{Label: l, Kind: "Bool", Terms: []*Term{t}})
		return tf.Cmp("=", t, tf.ConstU(1, 1)), true
	case "Range":
		l := in.strOf(st, args[0])
		lo, hi := in.termOf(args[1], "Range lo"), in.termOf(args[2], "Range hi")
		t := in.fresh(l, 64)
		st.draws = append(st.draws, draw{Label: l, Kind: "Range", Terms: []*Term{t}})
		in.addConstraint(st, tf.Cmp("bvsle", lo, t))
		in.addConstraint(st, tf.Cmp("bvsle", t, hi))
		return t, true
	case "Bytes", "U64s":
		w := 8
		if fn.Name() == "U64s" {
			w = 64
		}
		l := in.strOf(st, args[0])
		n := int(in.concretize(st, in.termOf(args[1], "vnd length"), "vnd."+fn.Name()+" length"))
		e := make([]Value, n)
		ts := make([]*Term, n)
		for i := range e {
			ts[i] = in.fresh(fmt.Sprintf("%s_%d", l, i), w)
			e[i] = ts[i]
		}
		st.draws = append(st.draws, draw{Label: l, Kind: fn.Name(), Terms: ts})
		if n == 0 {
			return Slice{Obj: -1, Nil: true}, true
		}
		id := st.alloc(Array{E: e}, "vnd."+fn.Name())
		return Slice{Obj: id, Len: n, Cap: n}, true
	case "Pick":
		l := in.strOf(st, args[0])
		lo := int(in.concretize(st, in.termOf(args[1], "pick lo"), "pick lo"))
		hi := int(in.concretize(st, in.termOf(args[2], "pick hi"), "pick hi"))
		if v, ok := st.picks[l]; ok {
			return tf.ConstI(64, int64(v)), true
		}
		if v, ok := in.presets[l]; ok {
			if v < lo || v > hi {
				panic(endPath{kind: "infeasible", msg: fmt.Sprintf("preset %s=%d outside [%d,%d]", l, v, lo, hi)})
			}
			st.picks[l] = v
			return tf.ConstI(64, int64(v)), true
		}
		if lo > hi {
			panic(endPath{kind: "infeasible", msg: "empty pick " + l})
		}
		fr := forkReq{why: "pick " + l}
		for v := lo; v <= hi; v++ {
			v := v
			fr.conds = append(fr.conds, tf.True())
			fr.apply = append(fr.apply, func(s *State) { s.picks[l] = v })
		}
		panic(fr)
	case "Assume":
		in.assume(st, in.termOf(args[0], "assume"))
		return nil, true
	case "Assert", "AssertFinding", "AssertEngine":
		ci, li := 0, 1
		finding := ""
		if fn.Name() == "AssertFinding" {
			finding = in.strOf(st, args[0])
			ci, li = 1, 2
		}
		c := in.termOf(args[ci], "assert")
		l := in.strOf(st, args[li])
		if in.labelPrefix != "" && !strings.HasPrefix(l, in.labelPrefix+" ") && !strings.HasPrefix(l, "SUMMARY ") {
			// an assertion of another property that shares this harness: it is that
			// property's check that discharges it; here it neither costs a query nor
			// constrains the path
			in.skippedAsserts++
			return nil, true
		}
		st.asserts++
		if c.IsTrue() {
			return nil, true
		}
		if v, ok := st.known[c.id]; ok && v {
			return nil, true
		}
		nc := tf.LNot(c)
		r := "sat"
		second := ""
		if !c.IsFalse() {
			in.sol.Push()
			in.sol.Assert(nc)
			r = in.sol.Check()
			if in.slowMs > 0 && in.sol.LastQuery.Milliseconds() > int64(in.slowMs) {
				fmt.Printf("SLOWQ %dms assert %q -> %s\n", in.sol.LastQuery.Milliseconds(), l, r)
			}
			in.assertQueries++
			// second opinion: the first 10 assertion queries of every task, then every 50th
			if in.second != "" && r != "unknown" && (in.assertQueries <= 10 || in.assertQueries%50 == 0) {
				second = oneShot(in.second, in.sol.flatText(""), in.sol.timeout)
				in.eng.noteSecond(r, second)
			}
			in.sol.Pop()
		}
		switch r {
		case "unsat":
			return nil, true
		case "unknown":
			panic(endPath{kind: "solver-unknown", msg: "assert " + l, pos: pos})
		}
		in.sol.Push()
		in.sol.Assert(nc)
		before := len(in.results)
		in.record(st, &endPath{kind: "assert-violated", label: l, msg: l, pos: pos})
		if len(in.results) > before {
			in.results[len(in.results)-1].Finding = finding
			in.results[len(in.results)-1].Second = second
			in.results[len(in.results)-1].EngineOnly = fn.Name() == "AssertEngine"
		}
		in.sol.Pop()
		// continue on the side where the assertion holds, if any
		if c.IsFalse() || in.sol.CheckWith(c) != "sat" {
			panic(endPath{kind: "infeasible", msg: "after violated assert"})
		}
		st.pc = append(st.pc, c)
		in.setKnown(st, c, true)
		in.sol.Assert(c)
		return nil, true
	case "Cover":
		st.covers[in.strOf(st, args[0])] = true
		return nil, true
	case "Observe":
		l := in.strOf(st, args[0])
		var vals []Value
		if s, ok := args[1].(Slice); ok && s.Obj >= 0 {
			for i := 0; i < s.Len; i++ {
				vals = append(vals, in.elem(st, s, i))
			}
		}
		st.obs = append(st.obs, observation{Label: l, Vals: vals})
		return nil, true
	case "HeldLocks":
		return tf.ConstI(64, int64(len(st.locks))), true
	case "CriticalSections":
		return tf.ConstI(64, int64(st.csections)), true
	case "MapScans":
		return tf.ConstI(64, int64(len(st.mapOps))), true
	case "Share":
		name := in.strOf(st, args[0])
		if i, ok := args[1].(Iface); ok && i.T != nil {
			in.markShared(st, i.V, name, 0)
		}
		return nil, true
	case "And":
		return tf.LAnd(in.termOf(args[0], "And"), in.termOf(args[1], "And")), true
	case "Or":
		return tf.LOr(in.termOf(args[0], "Or"), in.termOf(args[1], "Or")), true
	case "Implies":
		return tf.LOr(tf.LNot(in.termOf(args[0], "Implies")), in.termOf(args[1], "Implies")), true
	case "Ite64", "Ite8", "IteInt":
		return tf.Ite(in.termOf(args[0], "Ite"), in.termOf(args[1], "Ite"), in.termOf(args[2], "Ite")), true
	case "SharesMemory":
		// does anything reachable from root refer to the backing array of buf?
		target := -2
		if b, ok := args[1].(Slice); ok {
			target = b.Obj
		}
		found := false
		seen := map[int]bool{}
		var walk func(v Value, depth int)
		walk = func(v Value, depth int) {
			if found || depth > 12 {
				return
			}
			switch x := v.(type) {
			case Ptr:
				if x.IsNil() {
					return
				}
				if x.Obj == target {
					found = true
					return
				}
				if !seen[x.Obj] {
					seen[x.Obj] = true
					walk(st.heap[x.Obj].Cell, depth+1)
				}
			case Slice:
				if x.Obj < 0 {
					return
				}
				if x.Obj == target {
					found = true
					return
				}
				if !seen[x.Obj] {
					seen[x.Obj] = true
					walk(st.heap[x.Obj].Cell, depth+1)
				}
			case MapRef:
				if x.Nil || seen[x.Obj] {
					return
				}
				seen[x.Obj] = true
				md := st.heap[x.Obj].Cell.(MapData)
				for _, e := range md.Keys {
					walk(e, depth+1)
				}
				for _, e := range md.Vals {
					walk(e, depth+1)
				}
			case Struct:
				for _, f := range x.F {
					walk(f, depth+1)
				}
			case Array:
				if len(x.E) > 0 {
					if _, isT := x.E[0].(*Term); isT {
						return
					}
				}
				for _, e := range x.E {
					walk(e, depth+1)
				}
			case Iface:
				if x.T != nil {
					walk(x.V, depth+1)
				}
			case Tuple:
				for _, e := range x.E {
					walk(e, depth+1)
				}
			}
		}
		if i, ok := args[0].(Iface); ok && i.T != nil {
			walk(i.V, 0)
		}
		return tf.Bool(found), true
	case "ClockJump":
		st.lastMono = nil
		st.clockJump = true
		return nil, true
	case "RefTZ64":
		return in.refTZ64(in.termOf(args[0], "RefTZ64")), true
	case "Acquisitions":
		// how often has the path locked (Lock or RLock) the given mutex so far?
		if i, ok := args[0].(Iface); ok && i.T != nil {
			if p, ok := i.V.(Ptr); ok && !p.IsNil() {
				return tf.ConstI(64, int64(st.lockCounts[lockKey(p)])), true
			}
		}
		return tf.ConstI(64, 0), true
	case "Unshare":
		st.shared = map[int]string{}
		return nil, true
	case "U128From":
		s := args[0].(Slice)
		if s.Len < 16 {
			in.goPanic(st, "U128From: short slice", pos, nil)
		}
		t := in.termOf(in.elem(st, s, 0), "U128From")
		for i := 1; i < 16; i++ {
			t = tf.Concat(t, in.termOf(in.elem(st, s, i), "U128From"))
		}
		return in.fromU128(t), true
	case "U128FromU64":
		return in.fromU128(tf.ZExt(128, args[0].(*Term))), true
	case "U128Sub":
		return in.fromU128(tf.Bin("bvsub", in.u128(args[0]), in.u128(args[1]))), true
	case "U128Add":
		return in.fromU128(tf.Bin("bvadd", in.u128(args[0]), in.u128(args[1]))), true
	case "U128And":
		return in.fromU128(tf.Bin("bvand", in.u128(args[0]), in.u128(args[1]))), true
	case "U128Not":
		return in.fromU128(tf.Not(in.u128(args[0]))), true
	case "U128Less":
		return tf.Cmp("bvult", in.u128(args[0]), in.u128(args[1])), true
	case "U128Eq":
		return tf.Cmp("=", in.u128(args[0]), in.u128(args[1])), true
	case "U128Lshr":
		return in.fromU128(tf.Bin("bvlshr", in.u128(args[0]), tf.ZExt(128, args[1].(*Term)))), true
	case "U128Shl":
		return in.fromU128(tf.Bin("bvshl", in.u128(args[0]), tf.ZExt(128, args[1].(*Term)))), true
	case "U128AddOverflows":
		a, b := tf.ZExt(129, in.u128(args[0])), tf.ZExt(129, in.u128(args[1]))
		return tf.Cmp("=", tf.Extract(128, 128, tf.Bin("bvadd", a, b)), tf.ConstU(1, 1)), true
	case "U128ShlOverflows":
		x := tf.ZExt(256, in.u128(args[0]))
		n := tf.ZExt(256, args[1].(*Term))
		sh := tf.Bin("bvshl", x, n)
		lost := tf.LNot(tf.Cmp("=", tf.Extract(255, 128, sh), tf.ConstU(128, 0)))
		// n >= 128: everything is lost unless x == 0
		bigN := tf.Cmp("bvule", tf.ConstU(256, 128), n)
		return tf.Ite(bigN, tf.LNot(tf.Cmp("=", x, tf.ConstU(256, 0))), lost), true
	case "U128Bytes":
		t := in.u128(args[0])
		e := make([]Value, 16)
		for i := 0; i < 16; i++ {
			e[i] = tf.Extract(127-8*i, 120-8*i, t)
		}
		id := st.alloc(Array{E: e}, "U128Bytes")
		return Slice{Obj: id, Len: 16, Cap: 16}, true
	}
	panic(endPath{kind: "unsupported", msg: "vnd intrinsic " + fn.Name(), pos: pos})
}

var intrinsicTable map[string]intrinsicFn

func init() {
	intrinsicTable = map[string]intrinsicFn{
		"(*sync.Mutex).Lock":      mutexLock,
		"(*sync.RWMutex).Lock":    mutexLock,
		"(*sync.Mutex).Unlock":    mutexUnlock,
		"(*sync.RWMutex).Unlock":  mutexUnlock,
		"(*sync.RWMutex).RLock":   mutexRLock,
		"(*sync.RWMutex).RUnlock": mutexRUnlock,
		"(*sync.Mutex).TryLock":   nil,
		"(*sync.Once).Do":         onceDo,
		"(*sync.Pool).Get":        poolGet,
		"(*sync.Pool).Put":        poolPut,
		"time.Now":                timeNow,
		"(time.Time).Sub":         timeSub,
		"time.runtimeNano":        timeMono,
		"time.Sleep":              func(in *Interp, st *State, fn *ssa.Function, a []Value, r ssa.Value, p token.Pos) (Value, bool) { return nil, true },
		"internal/bytealg.Compare": func(in *Interp, st *State, fn *ssa.Function, a []Value, r ssa.Value, p token.Pos) (Value, bool) {
			return in.bytesCompare(st, a[0].(Slice), a[1].(Slice)), true
		},
		"bytes.Compare": func(in *Interp, st *State, fn *ssa.Function, a []Value, r ssa.Value, p token.Pos) (Value, bool) {
			return in.bytesCompare(st, a[0].(Slice), a[1].(Slice)), true
		},
		"internal/bytealg.Equal":           bytesEqual,
		"bytes.Equal":                      bytesEqual,
		"internal/bytealg.IndexByte":       indexByte,
		"internal/bytealg.IndexByteString": indexByte,
		"bytes.IndexByte":                  indexByte,
		"strings.IndexByte":                indexByte,
		"internal/bytealg.CountString":     countByte,
		"internal/bytealg.Count":           countByte,
		"internal/bytealg.MakeNoZero":      makeNoZero,
		"fmt.Errorf":                       fmtErrorf,
		"fmt.Sprintf":                      fmtSprintf,
		"fmt.Sprint":                       fmtOpaque,
		"fmt.Sprintln":                     fmtOpaque,
		"fmt.Println":                      fmtOpaque,
		"fmt.Printf":                       fmtOpaque,
		"fmt.Fprintf":                      fmtOpaque,
		"fmt.Fprintln":                     fmtOpaque,
		"os.Exit": func(in *Interp, st *State, fn *ssa.Function, a []Value, r ssa.Value, p token.Pos) (Value, bool) {
			panic(endPath{kind: "exit", msg: "os.Exit", pos: p})
		},
		"unique.Make[net/netip.addrDetail]": uniqueMake,
		"(unique.Handle[net/netip.addrDetail]).Value": func(in *Interp, st *State, fn *ssa.Function, a []Value, r ssa.Value, p token.Pos) (Value, bool) {
			h := a[0].(Struct)
			ptr := h.F[0].(Ptr)
			if ptr.IsNil() {
				in.goPanic(st, "nil unique handle", p, nil)
			}
			return st.load(ptr), true
		},
		"errors.Is":            errorsIs,
		"runtime.KeepAlive":    func(in *Interp, st *State, fn *ssa.Function, a []Value, r ssa.Value, p token.Pos) (Value, bool) { return nil, true },
		"runtime.GOMAXPROCS":   func(in *Interp, st *State, fn *ssa.Function, a []Value, r ssa.Value, p token.Pos) (Value, bool) { return in.tf.ConstI(64, 16), true },
		"sync/atomic.LoadUint32":   atomicLoad,
		"sync/atomic.LoadInt32":    atomicLoad,
		"sync/atomic.LoadUint64":   atomicLoad,
		"sync/atomic.LoadInt64":    atomicLoad,
		"sync/atomic.StoreUint32":  atomicStore,
		"sync/atomic.StoreInt32":   atomicStore,
		"sync/atomic.StoreUint64":  atomicStore,
		"sync/atomic.StoreInt64":   atomicStore,
		"sync/atomic.AddUint32":    atomicAdd,
		"sync/atomic.AddInt32":     atomicAdd,
		"sync/atomic.AddUint64":    atomicAdd,
		"sync/atomic.AddInt64":     atomicAdd,
		"strconv.Itoa":             strconvItoa,
		"time.ParseDuration":       parseDurationNative,
		"internal/abi.NoEscape":    func(in *Interp, st *State, fn *ssa.Function, a []Value, r ssa.Value, p token.Pos) (Value, bool) { return a[0], true },
		"(*strings.Builder).copyCheck": func(in *Interp, st *State, fn *ssa.Function, a []Value, r ssa.Value, p token.Pos) (Value, bool) { return nil, true },
		"math/bits.TrailingZeros64": tz64Summary,
		"strconv.FormatInt":        nil,
	}
	for k, v := range intrinsicTable {
		if v == nil {
			delete(intrinsicTable, k)
		}
	}
}

func mutexLock(in *Interp, st *State, fn *ssa.Function, args []Value, retTo ssa.Value, pos token.Pos) (Value, bool) {
	p := args[0].(Ptr)
	if p.IsNil() {
		in.goPanic(st, "Lock on nil mutex", pos, nil)
	}
	key := lockKey(p)
	ls := st.locks[key]
	if ls.writer || ls.readers > 0 {
		panic(endPath{kind: "self-deadlock", msg: "Lock of a mutex this goroutine already holds: " + in.lockName(st, key), pos: pos})
	}
	st.locks[key] = lockState{writer: true}
	st.lockOrder = append(st.lockOrder, key)
	st.csections++
	st.lockCounts = bumpCount(st.lockCounts, key)
	return nil, true
}

func bumpCount(m map[string]int, k string) map[string]int {
	n := make(map[string]int, len(m)+1)
	for a, b := range m {
		n[a] = b
	}
	n[k]++
	return n
}

func removeKey(l []string, k string) []string {
	out := l[:0:0]
	for _, x := range l {
		if x != k {
			out = append(out, x)
		}
	}
	return out
}

func mutexUnlock(in *Interp, st *State, fn *ssa.Function, args []Value, retTo ssa.Value, pos token.Pos) (Value, bool) {
	p := args[0].(Ptr)
	key := lockKey(p)
	if !st.locks[key].writer {
		panic(endPath{kind: "exit", msg: "fatal error: sync: unlock of unlocked mutex", pos: pos})
	}
	delete(st.locks, key)
	st.lockOrder = removeKey(st.lockOrder, key)
	return nil, true
}

func mutexRLock(in *Interp, st *State, fn *ssa.Function, args []Value, retTo ssa.Value, pos token.Pos) (Value, bool) {
	p := args[0].(Ptr)
	key := lockKey(p)
	ls := st.locks[key]
	if ls.writer {
		panic(endPath{kind: "self-deadlock", msg: "RLock of a mutex this goroutine holds for writing", pos: pos})
	}
	if ls.readers > 0 {
		// sync.RWMutex forbids recursive read locking: once a writer is waiting between the
		// two RLock calls, the second one blocks behind it and the writer behind the first
		panic(endPath{kind: "self-deadlock", msg: "recursive RLock of " + in.lockName(st, key) + ": deadlocks as soon as a writer arrives between the two read locks", pos: pos})
	}
	if ls.readers == 0 {
		st.lockOrder = append(st.lockOrder, key)
	}
	ls.readers++
	st.locks[key] = ls
	st.csections++
	st.lockCounts = bumpCount(st.lockCounts, key)
	return nil, true
}

func mutexRUnlock(in *Interp, st *State, fn *ssa.Function, args []Value, retTo ssa.Value, pos token.Pos) (Value, bool) {
	p := args[0].(Ptr)
	key := lockKey(p)
	ls := st.locks[key]
	if ls.readers == 0 {
		panic(endPath{kind: "exit", msg: "fatal error: sync: RUnlock of unlocked RWMutex", pos: pos})
	}
	ls.readers--
	if ls.readers == 0 {
		delete(st.locks, key)
		st.lockOrder = removeKey(st.lockOrder, key)
	} else {
		st.locks[key] = ls
	}
	return nil, true
}

// onceDo: the done flag is kept in field 0 of the Once struct ("done atomic.Uint32" / uint32).
func onceDo(in *Interp, st *State, fn *ssa.Function, args []Value, retTo ssa.Value, pos token.Pos) (Value, bool) {
	return nil, false // the real body (atomic load, mutex, doSlow) is executed from SSA
}

func poolGet(in *Interp, st *State, fn *ssa.Function, args []Value, retTo ssa.Value, pos token.Pos) (Value, bool) {
	// model: the pool is always empty, New is called
	return nil, false
}

func poolPut(in *Interp, st *State, fn *ssa.Function, args []Value, retTo ssa.Value, pos token.Pos) (Value, bool) {
	// the buffer goes back to the pool: from now on another goroutine may
	// overwrite it. Remember its backing array; any later read is a violation
	// of the receive-buffer discipline (C16, L3).
	if ifc, ok := args[1].(Iface); ok && ifc.T != nil {
		if p, ok := ifc.V.(Ptr); ok && !p.IsNil() {
			if sl, ok := st.load(p).(Slice); ok && sl.Obj >= 0 {
				for _, r := range st.recycled {
					if r == sl.Obj {
						// the pool would hand the same buffer to two receivers at once
						panic(endPath{kind: "use-after-recycle", msg: "a receive buffer is returned to the pool twice", pos: pos})
					}
				}
				st.recycled = append(append([]int(nil), st.recycled...), sl.Obj)
			}
		}
	}
	return nil, true
}

func atomicLoad(in *Interp, st *State, fn *ssa.Function, args []Value, retTo ssa.Value, pos token.Pos) (Value, bool) {
	p := args[0].(Ptr)
	if p.IsNil() {
		in.goPanic(st, "nil pointer dereference (atomic)", pos, nil)
	}
	return in.loadPtr(st, p, pos), true
}
func atomicStore(in *Interp, st *State, fn *ssa.Function, args []Value, retTo ssa.Value, pos token.Pos) (Value, bool) {
	p := args[0].(Ptr)
	if p.IsNil() {
		in.goPanic(st, "nil pointer dereference (atomic)", pos, nil)
	}
	in.storePtr(st, p, args[1], pos)
	return nil, true
}
func atomicAdd(in *Interp, st *State, fn *ssa.Function, args []Value, retTo ssa.Value, pos token.Pos) (Value, bool) {
	p := args[0].(Ptr)
	if p.IsNil() {
		in.goPanic(st, "nil pointer dereference (atomic)", pos, nil)
	}
	v := in.tf.Bin("bvadd", in.termOf(in.loadPtr(st, p, pos), "atomic add"), in.termOf(args[1], "atomic add"))
	in.storePtr(st, p, v, pos)
	return v, true
}

// clock model: wall seconds since year 1 are bounded to the years 2000..2100, the
// monotonic reading is non-decreasing and advances by less than one hour
// between reads (assumption T1 of DESIGN.md).
func timeNow(in *Interp, st *State, fn *ssa.Function, args []Value, retTo ssa.Value, pos token.Pos) (Value, bool) {
	tf := in.tf
	if in.opts["concrete-clock"] {
		// a fixed clock advancing one millisecond per read (harnesses whose subject is not time:
		// wire durations go through a division by 1e9 that no solver decides on symbolic values)
		st.clockReads++
		sec := tf.ConstU(33, 4450000000) // early 2026, seconds since year 1885
		nsec := tf.ConstU(30, uint64(st.clockReads)*1000000)
		mono := tf.ConstU(64, 1<<41+uint64(st.clockReads)*1000000)
		wall := tf.Concat(tf.ConstU(1, 1), tf.Concat(sec, nsec))
		if clockCallerInRepo(st) {
			st.draws = append(st.draws, draw{Label: "clock", Kind: "Now", Terms: []*Term{sec, nsec, mono}})
		}
		return Struct{F: []Value{wall, mono, nilPtr}}, true
	}
	sec := in.fresh("now_sec", 33)
	nsec := in.fresh("now_nsec", 30)
	mono := in.nextMono(st)
	// readings taken by code of the repository are replayed natively (time overlay,
	// replay.go); readings taken elsewhere (none today) see the real clock there
	if clockCallerInRepo(st) {
		st.draws = append(st.draws, draw{Label: "clock", Kind: "Now", Terms: []*Term{sec, nsec, mono}})
	}
	in.addConstraint(st, tf.Cmp("bvult", nsec, tf.ConstU(30, 1000000000)))
	in.addConstraint(st, tf.Cmp("bvule", tf.ConstU(33, 3630000000), sec))
	in.addConstraint(st, tf.Cmp("bvule", sec, tf.ConstU(33, 6780000000)))
	// the wall clock does not go backwards either (seconds and nanoseconds together)
	ws := tf.Concat(sec, nsec)
	if st.lastWall != nil {
		in.addConstraint(st, tf.Cmp("bvule", st.lastWall, ws))
	}
	st.lastWall = ws
	wall := tf.Concat(tf.ConstU(1, 1), tf.Concat(sec, nsec))
	return Struct{F: []Value{wall, mono, nilPtr}}, true
}

// timeSub models (time.Time).Sub for operands that are not both monotonic (the
// wall-clock branch). The real body multiplies a symbolic number of seconds by
// 1e9 and checks the result with Add/Equal, i.e. with a division by 1e9 - the
// kernel no back end decides. The result is the same function, written directly
// (exact difference when it fits in an int64, else saturated by order), bound to
// a fresh variable together with two implied facts - its sign and its zero test
// in terms of the (seconds, nanoseconds) order - so that the usual questions
// about a difference of times do not need the multiplier.
func timeSub(in *Interp, st *State, fn *ssa.Function, args []Value, retTo ssa.Value, pos token.Pos) (Value, bool) {
	t, ok1 := args[0].(Struct)
	u, ok2 := args[1].(Struct)
	if !ok1 || !ok2 || len(t.F) != 3 || len(u.F) != 3 {
		return nil, false
	}
	tw, ok1 := t.F[0].(*Term)
	uw, ok2 := u.F[0].(*Term)
	te, ok3 := t.F[1].(*Term)
	ue, ok4 := u.F[1].(*Term)
	if !ok1 || !ok2 || !ok3 || !ok4 {
		return nil, false
	}
	tf := in.tf
	c := func(v uint64) *Term { return tf.ConstU(64, v) }
	mono := func(w *Term) *Term { return tf.Cmp("=", tf.Bin("bvlshr", w, c(63)), c(1)) }
	tmB, umB := in.decide(st, mono(tw)), in.decide(st, mono(uw)) // the flag bits are decided (forking if both values are possible)
	if tmB && umB {
		return nil, false // both monotonic: the real body takes the cheap subMono branch
	}
	tm, um := tf.Bool(tmB), tf.Bool(umB)
	const wallToInternal = (1884*365 + 1884/4 - 1884/100 + 1884/400) * 86400
	sec := func(w, ext, m *Term) *Term {
		if m.IsTrue() {
			return tf.Bin("bvadd", c(wallToInternal), tf.Bin("bvlshr", tf.Bin("bvshl", w, c(1)), c(31)))
		}
		return ext
	}
	nsec := func(w *Term) *Term { return tf.Bin("bvand", w, c(1<<30-1)) }
	ts, us, tn, un := sec(tw, te, tm), sec(uw, ue, um), nsec(tw), nsec(uw)
	ds, dn := tf.Bin("bvsub", ts, us), tf.Bin("bvsub", tn, un)
	sum := tf.Bin("bvadd", tf.Bin("bvmul", ds, c(1000000000)), dn)
	zero := c(0)
	const big = 9223372036
	inRange := tf.LAnd(tf.Cmp("bvsle", tf.ConstI(64, -big), ds), tf.Cmp("bvsle", ds, tf.ConstI(64, big)))
	wrapped := tf.LOr(tf.LAnd(tf.Cmp("bvslt", zero, ds), tf.Cmp("bvslt", sum, zero)), tf.LAnd(tf.Cmp("bvslt", ds, zero), tf.Cmp("bvslt", zero, sum)))
	fits := tf.LAnd(inRange, tf.LNot(wrapped))
	before := tf.LOr(tf.Cmp("bvslt", ts, us), tf.LAnd(tf.Cmp("=", ts, us), tf.Cmp("bvult", tn, un)))
	equal := tf.LAnd(tf.Cmp("=", ts, us), tf.Cmp("=", tn, un))
	res := tf.Ite(fits, sum, tf.Ite(before, c(1<<63), c(1<<63-1)))
	if res.IsConst() {
		return res, true
	}
	r := in.fresh("tsub", 64)
	in.addConstraint(st, tf.Cmp("=", r, res))
	in.addConstraint(st, tf.Cmp("=", tf.Cmp("bvslt", r, zero), before))
	in.addConstraint(st, tf.Cmp("=", tf.Cmp("=", r, zero), equal))
	return r, true
}

func timeMono(in *Interp, st *State, fn *ssa.Function, args []Value, retTo ssa.Value, pos token.Pos) (Value, bool) {
	var m *Term
	if in.opts["concrete-clock"] {
		st.clockReads++
		m = in.tf.ConstU(64, 1<<41+uint64(st.clockReads)*1000000)
	} else {
		m = in.nextMono(st)
	}
	if clockCallerInRepo(st) {
		st.draws = append(st.draws, draw{Label: "clock", Kind: "Mono", Terms: []*Term{m}})
	}
	return m, true
}

// clockCallerInRepo: the innermost active function outside package time (the
// code that asked for the time) belongs to the repository module.
func clockCallerInRepo(st *State) bool {
	for i := len(st.stack) - 1; i >= 0; i-- {
		fn := st.stack[i].fn
		for fn.Parent() != nil {
			fn = fn.Parent()
		}
		if fn.Pkg == nil {
			continue
		}
		p := fn.Pkg.Pkg.Path()
		if p == "time" {
			continue
		}
		return p == modPath || strings.HasPrefix(p, modPath+"/")
	}
	return false
}

func (in *Interp) nextMono(st *State) *Term {
	tf := in.tf
	m := in.fresh("mono", 64)
	in.addConstraint(st, tf.Cmp("bvult", m, tf.ConstU(64, 1<<62)))
	if st.lastMono != nil {
		in.addConstraint(st, tf.Cmp("bvule", st.lastMono, m))
		in.addConstraint(st, tf.Cmp("bvult", tf.Bin("bvsub", m, st.lastMono), tf.ConstU(64, 3600*1000000000)))
	} else if st.clockJump && st.prevMono != nil {
		in.addConstraint(st, tf.Cmp("bvule", st.prevMono, m))
	} else {
		in.addConstraint(st, tf.Cmp("bvule", tf.ConstU(64, 1<<40), m))
	}
	st.lastMono = m
	st.prevMono = m
	return m
}

func bytesEqual(in *Interp, st *State, fn *ssa.Function, args []Value, retTo ssa.Value, pos token.Pos) (Value, bool) {
	a, b := args[0].(Slice), args[1].(Slice)
	if a.Len != b.Len {
		return in.tf.False(), true
	}
	r := in.tf.True()
	for i := 0; i < a.Len; i++ {
		r = in.tf.LAnd(r, in.tf.Cmp("=", in.termOf(in.elem(st, a, i), "bytes.Equal"), in.termOf(in.elem(st, b, i), "bytes.Equal")))
	}
	return r, true
}

// indexByte returns the index of the first occurrence as an ite chain (no fork).
func indexByte(in *Interp, st *State, fn *ssa.Function, args []Value, retTo ssa.Value, pos token.Pos) (Value, bool) {
	s := args[0].(Slice)
	c := in.termOf(args[1], "IndexByte")
	res := in.tf.ConstI(64, -1)
	for i := s.Len - 1; i >= 0; i-- {
		res = in.tf.Ite(in.tf.Cmp("=", in.termOf(in.elem(st, s, i), "IndexByte"), c), in.tf.ConstI(64, int64(i)), res)
	}
	return res, true
}

func countByte(in *Interp, st *State, fn *ssa.Function, args []Value, retTo ssa.Value, pos token.Pos) (Value, bool) {
	s := args[0].(Slice)
	c := in.termOf(args[1], "Count")
	res := in.tf.ConstI(64, 0)
	for i := 0; i < s.Len; i++ {
		res = in.tf.Bin("bvadd", res, in.tf.Ite(in.tf.Cmp("=", in.termOf(in.elem(st, s, i), "Count"), c), in.tf.ConstI(64, 1), in.tf.ConstI(64, 0)))
	}
	return res, true
}

func makeNoZero(in *Interp, st *State, fn *ssa.Function, args []Value, retTo ssa.Value, pos token.Pos) (Value, bool) {
	n := int(in.concretize(st, in.termOf(args[0], "MakeNoZero"), "MakeNoZero"))
	e := make([]Value, n)
	z := in.tf.ConstU(8, 0)
	for i := range e {
		e[i] = z
	}
	id := st.alloc(Array{E: e}, "MakeNoZero")
	return Slice{Obj: id, Len: n, Cap: n}, true
}

// opaqueString is the result of a formatting call with symbolic arguments:
// its bytes are poison so that any inspection ends the path loudly.
func (in *Interp) opaqueString(st *State, why string) Value {
	e := make([]Value, 8)
	for i := range e {
		e[i] = Poison{"opaque formatted string (" + why + ")"}
	}
	id := st.alloc(Array{E: e}, "opaque string")
	return Slice{Obj: id, Len: 8, Cap: 8, Str: true, Opaque: true}
}

// goArgs converts the variadic []any of a formatting call to native values
// when all of them are concrete scalars/strings.
func (in *Interp) goArgs(st *State, v Value, stringers ...bool) ([]interface{}, bool) {
	s, ok := v.(Slice)
	if !ok {
		return nil, false
	}
	var out []interface{}
	for i := 0; i < s.Len && s.Obj >= 0; i++ {
		ifc, ok := in.elem(st, s, i).(Iface)
		if !ok || ifc.T == nil {
			return nil, false
		}
		// %s / %v of a value with a String() or Error() method (and no Format method): run the
		// method on the value; it succeeds only when it needs no fork (concrete data)
		if len(stringers) > 0 && stringers[0] && in.hasFormatMethod(ifc.T) {
			if str, ok := in.stringOf(st, ifc); ok {
				out = append(out, str)
				continue
			}
			return nil, false
		}
		switch x := ifc.V.(type) {
		case *Term:
			if !x.IsConst() {
				return nil, false
			}
			if w, sgn, ok := intWidth(ifc.T); ok {
				if in.hasFormatMethod(ifc.T) {
					return nil, false
				}
				if sgn {
					out = append(out, signed(w, x.C).Int64())
				} else {
					out = append(out, x.C.Uint64())
				}
			} else {
				return nil, false
			}
		case Slice:
			if !x.Str {
				return nil, false
			}
			if in.hasFormatMethod(ifc.T) {
				return nil, false
			}
			str, ok := in.concreteStr(st, x)
			if !ok {
				return nil, false
			}
			out = append(out, str)
		default:
			return nil, false
		}
	}
	return out, true
}

func fmtSprintf(in *Interp, st *State, fn *ssa.Function, args []Value, retTo ssa.Value, pos token.Pos) (Value, bool) {
	if f, ok := in.concreteStr(st, args[0]); ok {
		if ga, ok := in.goArgs(st, args[1], onlyStringVerbs(f)); ok {
			return in.strConst(st, fmt.Sprintf(f, ga...)), true
		}
	}
	return in.opaqueString(st, "Sprintf"), true
}

// onlyStringVerbs: every verb of the format is a plain %s or %v (for which fmt
// prints a Stringer / error through its method).
func onlyStringVerbs(f string) bool {
	for i := 0; i < len(f); i++ {
		if f[i] != '%' {
			continue
		}
		i++
		if i >= len(f) || (f[i] != 's' && f[i] != 'v' && f[i] != '%') {
			return false
		}
	}
	return true
}

// stringOf evaluates v.String() (or v.Error()) in the engine.
func (in *Interp) stringOf(st *State, ifc Iface) (string, bool) {
	ms := in.prog.MethodSets.MethodSet(ifc.T)
	if ms.Lookup(nil, "Format") != nil {
		return "", false
	}
	sel := ms.Lookup(nil, "Error")
	if sel == nil {
		sel = ms.Lookup(nil, "String")
	}
	if sel == nil {
		return "", false
	}
	m := in.eng.methodValue(sel)
	if m == nil {
		return "", false
	}
	res, ok := in.callSync(st, m, []Value{ifc.V})
	if !ok {
		return "", false
	}
	sl, isStr := res.(Slice)
	if !isStr || !sl.Str || sl.Opaque {
		return "", false
	}
	return in.concreteStr(st, sl)
}

func fmtOpaque(in *Interp, st *State, fn *ssa.Function, args []Value, retTo ssa.Value, pos token.Pos) (Value, bool) {
	res := fn.Signature.Results()
	switch res.Len() {
	case 0:
		return nil, true
	case 1:
		return in.opaqueString(st, fn.Name()), true
	}
	return Tuple{E: []Value{in.tf.ConstI(64, 0), Iface{}}}, true
}

// fmtErrorf returns an opaque non-nil error (*fmt.wrapError so that Unwrap on
// a %w operand keeps working for a single wrapped error).
func fmtErrorf(in *Interp, st *State, fn *ssa.Function, args []Value, retTo ssa.Value, pos token.Pos) (Value, bool) {
	var wrapped Value = Iface{}
	if s, ok := args[1].(Slice); ok && s.Obj >= 0 {
		if f, ok := in.concreteStr(st, args[0]); ok && strings.Contains(f, "%w") {
			for i := 0; i < s.Len; i++ {
				if ifc, ok := in.elem(st, s, i).(Iface); ok && ifc.T != nil {
					errT := types.Universe.Lookup("error").Type().Underlying().(*types.Interface)
					if types.Implements(ifc.T, errT) {
						wrapped = ifc
					}
				}
			}
		}
	}
	fmtPkg := in.prog.ImportedPackage("fmt")
	if fmtPkg != nil {
		if wt := fmtPkg.Type("wrapError"); wt != nil {
			msg := in.opaqueString(st, "Errorf")
			if f, ok := in.concreteStr(st, args[0]); ok {
				if ga, ok := in.goArgs(st, args[1]); ok && !strings.Contains(f, "%w") {
					msg = in.strConst(st, fmt.Sprintf(f, ga...))
				}
			}
			id := st.alloc(Struct{F: []Value{msg, wrapped}}, "fmt.Errorf")
			return Iface{T: types.NewPointer(wt.Type()), V: Ptr{Obj: id}}, true
		}
	}
	errT := in.prog.ImportedPackage("errors").Type("errorString").Type()
	id := st.alloc(Struct{F: []Value{in.opaqueString(st, "Errorf")}}, "fmt.Errorf")
	return Iface{T: types.NewPointer(errT), V: Ptr{Obj: id}}, true
}

// errorsIs: identity comparison along the Unwrap chain of *fmt.wrapError.
func errorsIs(in *Interp, st *State, fn *ssa.Function, args []Value, retTo ssa.Value, pos token.Pos) (Value, bool) {
	err, ok1 := args[0].(Iface)
	target, ok2 := args[1].(Iface)
	if !ok1 || !ok2 {
		return nil, false
	}
	for depth := 0; depth < 8; depth++ {
		if err.T == nil {
			return in.tf.Bool(target.T == nil), true
		}
		if target.T != nil && types.Identical(err.T, target.T) {
			if _, isPtr := err.V.(Ptr); isPtr {
				if in.valueEq(st, err.V, target.V).IsTrue() {
					return in.tf.True(), true
				}
			} else if sv, isStruct := err.V.(Struct); isStruct && len(sv.F) == 0 {
				// sentinel errors of an empty struct type (net.ErrClosed is internal/poll.errNetClosing{})
				return in.tf.True(), true
			}
		}
		// unwrap *fmt.wrapError
		p, isPtr := err.V.(Ptr)
		if !isPtr || p.IsNil() {
			return in.tf.False(), true
		}
		if pt, ok := err.T.(*types.Pointer); ok {
			if n, ok := pt.Elem().(*types.Named); ok && n.Obj().Name() == "wrapError" && n.Obj().Pkg().Path() == "fmt" {
				s := st.load(p).(Struct)
				next, ok := s.F[1].(Iface)
				if !ok {
					return in.tf.False(), true
				}
				err = next
				continue
			}
		}
		return in.tf.False(), true
	}
	return in.tf.False(), true
}

// uniqueMake interns by structural equality of concrete values (netip zones).
func uniqueMake(in *Interp, st *State, fn *ssa.Function, args []Value, retTo ssa.Value, pos token.Pos) (Value, bool) {
	v := args[0]
	key := "unique:" + in.structKey(st, v)
	id, ok := st.strs[key]
	if !ok {
		id = st.alloc(v, "unique")
		st.strs[key] = id
	}
	return Struct{F: []Value{Ptr{Obj: id}}}, true
}

func (in *Interp) structKey(st *State, v Value) string {
	switch x := v.(type) {
	case *Term:
		if x.IsConst() {
			return x.C.String()
		}
		return fmt.Sprintf("t%d", x.id)
	case Slice:
		if x.Str {
			return strconv.Quote(in.strOf(st, x))
		}
	case Struct:
		var parts []string
		for _, f := range x.F {
			parts = append(parts, in.structKey(st, f))
		}
		return "{" + strings.Join(parts, ",") + "}"
	}
	return fmt.Sprintf("%T", v)
}

func strconvItoa(in *Interp, st *State, fn *ssa.Function, args []Value, retTo ssa.Value, pos token.Pos) (Value, bool) {
	t := in.termOf(args[0], "Itoa")
	if t.IsConst() {
		return in.strConst(st, strconv.FormatInt(signed(t.W, t.C).Int64(), 10)), true
	}
	return nil, false
}

// refTZ64 is the bit-scan definition of TrailingZeros64 as an ite chain. It is
// used as a validated summary of math/bits.TrailingZeros64 (whose de Bruijn
// multiply-and-lookup body is expensive for the solver); the obligation harness
// VerifH_sum_tz64 executes the real body (option "real-tz64") and proves it
// equal to this term for every 64-bit input.
func (in *Interp) refTZ64(x *Term) *Term {
	tf := in.tf
	res := tf.ConstI(64, 64)
	for i := 63; i >= 0; i-- {
		res = tf.Ite(tf.Cmp("=", tf.Extract(i, i, x), tf.ConstU(1, 1)), tf.ConstI(64, int64(i)), res)
	}
	return res
}

func tz64Summary(in *Interp, st *State, fn *ssa.Function, args []Value, retTo ssa.Value, pos token.Pos) (Value, bool) {
	if in.opts["real-tz64"] {
		return nil, false
	}
	x := in.termOf(args[0], "TrailingZeros64")
	if x.IsConst() {
		return nil, false
	}
	in.eng.noteSummary("math/bits.TrailingZeros64")
	return in.refTZ64(x), true
}

// parseDurationNative: time.ParseDuration is a pure function of its argument;
// on a concrete string the host's (identical) standard library computes it.
func parseDurationNative(in *Interp, st *State, fn *ssa.Function, args []Value, retTo ssa.Value, pos token.Pos) (Value, bool) {
	s, ok := in.concreteStr(st, args[0])
	if !ok {
		return nil, false
	}
	d, err := time.ParseDuration(s)
	var ev Value = Iface{}
	if err != nil {
		errT := in.prog.ImportedPackage("errors").Type("errorString").Type()
		id := st.alloc(Struct{F: []Value{in.strConst(st, err.Error())}}, "time.ParseDuration error")
		ev = Iface{T: types.NewPointer(errT), V: Ptr{Obj: id}}
	}
	return Tuple{E: []Value{in.tf.ConstI(64, int64(d)), ev}}, true
}

// hasFormatMethod: does fmt consult a method of this type when formatting it?
func (in *Interp) hasFormatMethod(t types.Type) bool {
	if _, named := t.(*types.Named); !named {
		return false
	}
	ms := in.prog.MethodSets.MethodSet(t)
	for _, n := range []string{"String", "Error", "Format", "GoString"} {
		if ms.Lookup(nil, n) != nil {
			return true
		}
	}
	return false
}
