package main

import (
	"fmt"
	"go/types"

	"golang.org/x/tools/go/ssa"
)

// Value is one of: *Term (integers, booleans), Ptr, Slice (slices and
// strings), Struct, Array, Iface, Closure, BuiltinFn, MapRef, Tuple, Iter,
// Poison.
type Value interface{}

// Ptr points into a heap object; Obj < 0 is nil. A pointer may carry one
// symbolic trailing index (element SymOff+Sym of the array at Path).
type Ptr struct {
	Obj    int
	Path   []int
	Sym    *Term
	SymOff int
	SymN   int
}

// Slice (and string when Str) over the array found at heap[Obj] under Path.
type Slice struct {
	Obj           int
	Path          []int
	Off, Len, Cap int
	Nil           bool
	Str           bool
	Opaque        bool // result of a formatting call the engine did not evaluate: any inspection is refused
}
type Struct struct{ F []Value }
type Array struct{ E []Value }
type Iface struct {
	T types.Type // nil => nil interface
	V Value
}
type Closure struct {
	Fn  *ssa.Function
	Env []Value
	Nil bool
}
type BuiltinFn struct{ Name string }
type MapRef struct {
	Obj int
	Nil bool
}
type MapData struct {
	Keys, Vals []Value
}
type Tuple struct{ E []Value }

// ChanRef is a channel; its queue lives in the heap cell Obj (a ChanData). The
// model is an unbounded FIFO: a send never blocks, a receive from an empty open
// channel (or any operation on a nil channel) blocks forever.
type ChanRef struct {
	Obj int
	Nil bool
}
type ChanData struct {
	Q      []Value
	Closed bool
}

// Iter is a map or string iterator (Range/Next); its state lives in the heap
// cell Obj as an IterData so that forks do not share the position.
type Iter struct{ Obj int }
type IterData struct {
	Keys, Vals []Value // snapshot for maps
	Str        Slice
	IsStr      bool
	Pos        int
}
type Poison struct{ Why string }

var nilPtr = Ptr{Obj: -1}

type Object struct {
	Cell Value
	Tag  string
}

func (p Ptr) IsNil() bool { return p.Obj < 0 }

func (p Ptr) ext(i int) Ptr {
	np := make([]int, len(p.Path)+1)
	copy(np, p.Path)
	np[len(p.Path)] = i
	return Ptr{Obj: p.Obj, Path: np}
}

func intWidth(t types.Type) (w int, signed bool, ok bool) {
	b, isb := t.Underlying().(*types.Basic)
	if !isb {
		return 0, false, false
	}
	switch b.Kind() {
	case types.Int8:
		return 8, true, true
	case types.Int16:
		return 16, true, true
	case types.Int32, types.UntypedRune:
		return 32, true, true
	case types.Int64, types.Int, types.UntypedInt:
		return 64, true, true
	case types.Uint8:
		return 8, false, true
	case types.Uint16:
		return 16, false, true
	case types.Uint32:
		return 32, false, true
	case types.Uint64, types.Uint, types.Uintptr:
		return 64, false, true
	}
	return 0, false, false
}

func isString(t types.Type) bool {
	b, ok := t.Underlying().(*types.Basic)
	return ok && b.Info()&types.IsString != 0
}
func isBool(t types.Type) bool {
	b, ok := t.Underlying().(*types.Basic)
	return ok && b.Info()&types.IsBoolean != 0
}
func isFloat(t types.Type) bool {
	b, ok := t.Underlying().(*types.Basic)
	return ok && b.Info()&(types.IsFloat|types.IsComplex) != 0
}

func (in *Interp) zero(t types.Type) Value {
	switch u := t.Underlying().(type) {
	case *types.Basic:
		if w, _, ok := intWidth(t); ok {
			return in.tf.ConstU(w, 0)
		}
		if isBool(t) {
			return in.tf.False()
		}
		if isString(t) {
			return Slice{Obj: -1, Str: true}
		}
		if u.Kind() == types.UnsafePointer {
			return nilPtr
		}
		return Poison{"zero of " + t.String()}
	case *types.Pointer:
		return nilPtr
	case *types.Slice:
		return Slice{Obj: -1, Nil: true}
	case *types.Struct:
		f := make([]Value, u.NumFields())
		for i := range f {
			f[i] = in.zero(u.Field(i).Type())
		}
		return Struct{F: f}
	case *types.Array:
		e := make([]Value, u.Len())
		if u.Len() > 0 {
			z := in.zero(u.Elem())
			for i := range e {
				e[i] = z
			}
		}
		return Array{E: e}
	case *types.Interface:
		return Iface{}
	case *types.Map:
		return MapRef{Obj: -1, Nil: true}
	case *types.Signature:
		return Closure{Nil: true}
	case *types.Chan:
		return ChanRef{Obj: -1, Nil: true}
	case *types.Tuple:
		e := make([]Value, u.Len())
		for i := range e {
			e[i] = in.zero(u.At(i).Type())
		}
		return Tuple{E: e}
	}
	return Poison{"zero of " + t.String()}
}

func describe(v Value) string {
	switch x := v.(type) {
	case *Term:
		if x.IsConst() {
			return fmt.Sprintf("%s:bv%d", x.C.String(), x.W)
		}
		return fmt.Sprintf("<%s:%d>", x.Op, x.W)
	case Iface:
		if x.T == nil {
			return "nil-interface"
		}
		return fmt.Sprintf("iface(%s)", x.T.String())
	}
	return fmt.Sprintf("%T", v)
}
