//go:build verif

package router

import (
	"net"

	"github.com/coredhcp/coredhcp/internal/vh"
	"github.com/coredhcp/coredhcp/internal/vnd"
	"github.com/insomniacslk/dhcp/dhcpv4"
)

func VerifH_router4() {
	n := vnd.Pick("nrouters", 1, 3)
	routers = nil
	var want []byte
	for i := 0; i < n; i++ {
		b := vnd.Bytes("router", 4)
		want = append(want, b...)
		if vnd.Pick("form", 0, 1) == 0 {
			routers = append(routers, net.IPv4(b[0], b[1], b[2], b[3]))
		} else {
			routers = append(routers, net.IP(b))
		}
	}
	req := vh.Req4()
	vh.PRL(req)
	resp, ec, ev := vh.Resp4(req, uint8(dhcpv4.OptionRouter))
	n0 := len(resp.Options)

	r, stop := Handler4(req, resp)

	vnd.Assert(r != nil || stop, "C13 a built-in handler returns a nil response only together with stop")
	vnd.Assert(r != nil || stop, "C01 no handler passes a nil response on to its successors (they would dereference it)")
	vnd.Cover("emitted")
	vnd.Assert(r == resp && !stop, "C17 router passes the response on")
	got, present := resp.Options[uint8(dhcpv4.OptionRouter)]
	vnd.Assert(present && vh.BytesAre(got, want), "C17 router emits exactly the configured routers as 4-byte addresses, unconditionally")
	vnd.Assert(vh.Untouched4(resp, req, ec, ev, n0+1), "C17 router leaves everything else untouched")
	vnd.Observe("routers", got)
}
