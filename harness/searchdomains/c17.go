//go:build verif

package searchdomains

import (
	"github.com/coredhcp/coredhcp/internal/vh"
	"github.com/coredhcp/coredhcp/internal/vnd"
	"github.com/insomniacslk/dhcp/dhcpv4"
	"github.com/insomniacslk/dhcp/dhcpv6"
)

// domains draws 1..2 domains of the form "ab.cd" / "ab" with symbolic letters
// (no '.' inside a label) and returns the RFC 1035 wire encoding expected.
func domains() (list []string, want []byte) {
	n := vnd.Pick("ndomains", 1, 2)
	for i := 0; i < n; i++ {
		nl := vnd.Pick("nlabels", 1, 2)
		s := ""
		for j := 0; j < nl; j++ {
			l := vnd.Bytes("label", 2)
			vnd.Assume(vnd.And(l[0] != '.', l[1] != '.'))
			if j > 0 {
				s += "."
			}
			s += string(l)
			want = append(want, 2, l[0], l[1])
		}
		want = append(want, 0)
		list = append(list, s)
	}
	return
}

func VerifH_search4() {
	list, want := domains()
	v4SearchList = list
	req := vh.Req4()
	vh.PRL(req)
	resp, ec, ev := vh.Resp4(req, uint8(dhcpv4.OptionDNSDomainSearchList))
	n0 := len(resp.Options)

	r, stop := domainSearchListHandler4(req, resp)

	vnd.Assert(r != nil || stop, "C13 a built-in handler returns a nil response only together with stop")
	vnd.Assert(r != nil || stop, "C01 no handler passes a nil response on to its successors (they would dereference it)")
	vnd.Cover("emitted")
	vnd.Assert(r == resp && !stop, "C17 searchdomains4 passes the response on")
	got, present := resp.Options[uint8(dhcpv4.OptionDNSDomainSearchList)]
	vnd.Assert(present && vh.BytesAre(got, want), "C17 searchdomains4 emits the configured list in RFC 1035 encoding, unconditionally")
	vnd.Assert(vh.Untouched4(resp, req, ec, ev, n0+1), "C17 searchdomains4 leaves everything else untouched")
	vnd.Assert(len(v4SearchList) == len(list), "C17 searchdomains4 does not modify its configuration")
	vnd.Observe("search", got)
}

func VerifH_search6() {
	list, want := domains()
	v6SearchList = list
	inner, msg := vh.Req6()
	vh.ORO(msg)
	req := vh.Relay(inner, vnd.Pick("relay", 0, 1))
	resp, extra := vh.Resp6(msg, uint16(dhcpv6.OptionDomainSearchList))
	n0 := len(resp.Options.Options)

	r, stop := domainSearchListHandler6(req, resp)

	vnd.Assert(r != nil || stop, "C13 a built-in handler returns a nil response only together with stop")
	vnd.Assert(r != nil || stop, "C01 no handler passes a nil response on to its successors (they would dereference it)")
	vnd.Cover("emitted")
	vnd.Assert(r == dhcpv6.DHCPv6(resp) && !stop, "C17 searchdomains6 passes the response on")
	opts := resp.Options.Get(dhcpv6.OptionDomainSearchList)
	vnd.Assert(len(opts) == 1, "C17 searchdomains6 emits the option exactly once")
	if len(opts) == 1 {
		vnd.Assert(vh.BytesAre(opts[0].ToBytes(), want), "C17 searchdomains6 emits the configured list in RFC 1035 encoding")
	}
	vnd.Assert(len(resp.Options.Options) == n0+1, "C17 searchdomains6 leaves everything else untouched")
	if extra != nil {
		vnd.Assert(resp.Options.GetOne(extra.OptionCode) == dhcpv6.Option(extra), "C17 searchdomains6 keeps unrelated options")
	}
}
