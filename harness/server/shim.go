//go:build verif

package server

import (
	"errors"
	"net"

	"github.com/coredhcp/coredhcp/internal/vnd"
	"github.com/insomniacslk/dhcp/dhcpv4"
	"github.com/insomniacslk/dhcp/dhcpv6"
	"golang.org/x/net/ipv4"
	"golang.org/x/net/ipv6"
)

// Capture shims. A method declared on the listener struct shadows the one
// promoted from the embedded *ipvN.PacketConn, so l.WriteTo(...) in the
// unmodified handle.go resolves to these, in the SSA the engine reads and in
// the native replay build alike.

type sendEvent struct {
	v6    bool
	l2    bool
	bytes []byte
	cm4   *ipv4.ControlMessage
	cm6   *ipv6.ControlMessage
	peer  net.Addr
	iface net.Interface
	resp4 *dhcpv4.DHCPv4
}

var sent []sendEvent

func (l *listener4) WriteTo(b []byte, cm *ipv4.ControlMessage, dst net.Addr) (int, error) {
	sent = append(sent, sendEvent{bytes: b, cm4: cm, peer: dst})
	if writeFails {
		return 0, errors.New("sendmsg: network is unreachable")
	}
	return len(b), nil
}

func (l *listener6) WriteTo(b []byte, cm *ipv6.ControlMessage, dst net.Addr) (int, error) {
	sent = append(sent, sendEvent{v6: true, bytes: b, cm6: cm, peer: dst})
	if writeFails {
		return 0, errors.New("sendmsg: network is unreachable")
	}
	return len(b), nil
}

var writeFails bool

// ---- codec entry stubs (engine only): the parser's post-condition ----

var (
	stubReq4 *dhcpv4.DHCPv4
	stubErr4 error
	stubReq6 dhcpv6.DHCPv6
	stubErr6 error
)

// realCodec: set by a harness while it parses captured bytes itself (a stub may
// call the function it replaces).
var realCodec bool

func stubFromBytes4(data []byte) (*dhcpv4.DHCPv4, error) {
	if realCodec {
		return dhcpv4.FromBytes(data)
	}
	return stubReq4, stubErr4
}
func stubFromBytes6(data []byte) (dhcpv6.DHCPv6, error) {
	if realCodec {
		return dhcpv6.FromBytes(data)
	}
	return stubReq6, stubErr6
}

func stubXid4() (dhcpv4.TransactionID, error) {
	var x dhcpv4.TransactionID
	copy(x[:], vnd.Bytes("genxid", 4))
	if vnd.Pick("xidfails", 0, 1) == 1 {
		return x, errors.New("entropy source failed")
	}
	return x, nil
}

var ifaceFails bool

func stubIfByIndex(index int) (*net.Interface, error) {
	if ifaceFails {
		return nil, errors.New("no such network interface")
	}
	return &net.Interface{Index: index, Name: "eth-verif", HardwareAddr: net.HardwareAddr{2, 0, 0, 0, 0, 1}}, nil
}

// ethFails: the link-level send fails (raw socket refused, interface without a
// 6-byte hardware address, chaddr of another length)
var ethFails bool

func stubSendEthernet(iface net.Interface, resp *dhcpv4.DHCPv4) error {
	sent = append(sent, sendEvent{l2: true, iface: iface, resp4: resp})
	if vnd.Pick("ethfails", 0, 1) == 1 { // decided only on paths that get here
		ethFails = true
		return errors.New("sendEthernet: operation not permitted")
	}
	return nil
}
