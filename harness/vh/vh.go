//go:build verif

// Package vh holds request/response builders shared by the plugin harnesses.
// Everything is built structurally, in exactly the shapes the real parsers
// produce (tied to the codec by the wire-layer harnesses of C01).
package vh

import (
	"net"

	"github.com/coredhcp/coredhcp/internal/vnd"
	"github.com/insomniacslk/dhcp/dhcpv4"
	"github.com/insomniacslk/dhcp/dhcpv6"
	"github.com/insomniacslk/dhcp/iana"
)

// Req4 is a parsed BOOTREQUEST: DISCOVER or REQUEST, symbolic xid and chaddr,
// 4-byte zero address fields as dhcpv4.FromBytes produces them.
func Req4() *dhcpv4.DHCPv4 {
	req := &dhcpv4.DHCPv4{OpCode: dhcpv4.OpcodeBootRequest, HWType: iana.HWTypeEthernet,
		ClientHWAddr: net.HardwareAddr(vnd.Bytes("chaddr", 6)), Options: dhcpv4.Options{},
		ClientIPAddr: make(net.IP, 4), YourIPAddr: make(net.IP, 4), ServerIPAddr: make(net.IP, 4), GatewayIPAddr: make(net.IP, 4)}
	copy(req.TransactionID[:], vnd.Bytes("xid", 4))
	mt := byte(dhcpv4.MessageTypeDiscover)
	if vnd.Pick("reqtype", 0, 1) == 1 {
		mt = byte(dhcpv4.MessageTypeRequest)
	}
	req.Options[uint8(dhcpv4.OptionDHCPMessageType)] = []byte{mt}
	return req
}

// PRL gives the request a parameter request list: kind 0 absent, 1 present
// with a nil value (wire length 0: the parser stores nil), 2 = 1..3 symbolic
// codes. listed reports membership without forking.
func PRL(req *dhcpv4.DHCPv4) (kind int, codes []byte) {
	kind = vnd.Pick("prl", 0, 2)
	switch kind {
	case 1:
		req.Options[uint8(dhcpv4.OptionParameterRequestList)] = nil
	case 2:
		codes = vnd.Bytes("prlcodes", vnd.Pick("prln", 1, 3))
		req.Options[uint8(dhcpv4.OptionParameterRequestList)] = codes
	}
	return
}

func Listed(codes []byte, c byte) bool {
	in := false
	for _, x := range codes {
		in = vnd.Or(in, x == c)
	}
	return in
}

// Resp4 is the reply skeleton the server hands to the first handler (OFFER for
// DISCOVER, ACK for REQUEST) possibly already carrying a lease address and one
// unrelated option set by an earlier plugin. The unrelated option's code is
// symbolic but different from every code in avoid.
func Resp4(req *dhcpv4.DHCPv4, avoid ...uint8) (resp *dhcpv4.DHCPv4, extraCode uint8, extraVal []byte) {
	resp = &dhcpv4.DHCPv4{OpCode: dhcpv4.OpcodeBootReply, HWType: req.HWType, ClientHWAddr: req.ClientHWAddr, TransactionID: req.TransactionID,
		Options: dhcpv4.Options{}, ClientIPAddr: make(net.IP, 4), YourIPAddr: make(net.IP, 4), ServerIPAddr: make(net.IP, 4), GatewayIPAddr: make(net.IP, 4)}
	mt := byte(dhcpv4.MessageTypeOffer)
	if req.Options[uint8(dhcpv4.OptionDHCPMessageType)][0] == byte(dhcpv4.MessageTypeRequest) {
		mt = byte(dhcpv4.MessageTypeAck)
	}
	resp.Options[uint8(dhcpv4.OptionDHCPMessageType)] = []byte{mt}
	if vnd.Pick("yiaddr", 0, 1) == 1 {
		resp.YourIPAddr = net.IP(vnd.Bytes("yi", 4))
	}
	if vnd.Pick("extra", 0, 1) == 1 {
		extraCode = vnd.U8("extracode")
		vnd.Assume(extraCode != uint8(dhcpv4.OptionDHCPMessageType))
		vnd.Assume(vnd.And(extraCode != 0, extraCode != 255)) // pad and end are not options
		for _, a := range avoid {
			vnd.Assume(extraCode != a)
		}
		extraVal = vnd.Bytes("extraval", 2)
		resp.Options[extraCode] = append([]byte(nil), extraVal...)
	}
	return
}

// BytesAre reports got == want without forking (false on length mismatch).
func BytesAre(got, want []byte) bool {
	if len(got) != len(want) {
		return false
	}
	eq := true
	for i := range got {
		eq = vnd.And(eq, got[i] == want[i])
	}
	return eq
}

// Untouched4 checks that the message-type option, the unrelated option and the
// header fields of resp are as Resp4 built them and that the number of options
// is nOpts.
func Untouched4(resp, req *dhcpv4.DHCPv4, extraCode uint8, extraVal []byte, nOpts int) bool {
	ok := len(resp.Options) == nOpts
	if extraVal != nil {
		ok = vnd.And(ok, BytesAre(resp.Options[extraCode], extraVal))
	}
	ok = vnd.And(ok, resp.OpCode == dhcpv4.OpcodeBootReply)
	ok = vnd.And(ok, resp.TransactionID == req.TransactionID)
	ok = vnd.And(ok, BytesAre(resp.ClientHWAddr, req.ClientHWAddr))
	return ok
}

// Req6 is a parsed client message: symbolic type among the client types,
// symbolic transaction id, DUID-LL client id, optionally wrapped in relay layers.
func Req6() (dhcpv6.DHCPv6, *dhcpv6.Message) {
	msg := &dhcpv6.Message{MessageType: dhcpv6.MessageType(vnd.U8("msgtype"))}
	copy(msg.TransactionID[:], vnd.Bytes("xid", 3))
	msg.AddOption(dhcpv6.OptClientID(&dhcpv6.DUIDLL{HWType: iana.HWTypeEthernet, LinkLayerAddr: net.HardwareAddr(vnd.Bytes("cmac", 6))}))
	return msg, msg
}

// Relay wraps req in depth Relay-Forward layers with symbolic addresses.
func Relay(req dhcpv6.DHCPv6, depth int) dhcpv6.DHCPv6 {
	for i := 0; i < depth; i++ {
		r, err := dhcpv6.EncapsulateRelay(req, dhcpv6.MessageTypeRelayForward, net.IP(vnd.Bytes("link", 16)), net.IP(vnd.Bytes("peer", 16)))
		vnd.Assume(err == nil)
		req = r
	}
	return req
}

// ORO gives the message an option request option: kind 0 absent, 1 = 0..3 symbolic codes.
func ORO(msg *dhcpv6.Message) (kind int, codes []uint16) {
	kind = vnd.Pick("oro", 0, 1)
	if kind == 1 {
		n := vnd.Pick("oron", 0, 3)
		var oc []dhcpv6.OptionCode
		for i := 0; i < n; i++ {
			c := vnd.U16("orocode")
			codes = append(codes, c)
			oc = append(oc, dhcpv6.OptionCode(c))
		}
		msg.AddOption(dhcpv6.OptRequestedOption(oc...))
	}
	return
}

func Listed6(codes []uint16, c uint16) bool {
	in := false
	for _, x := range codes {
		in = vnd.Or(in, x == c)
	}
	return in
}

// Resp6 is the reply skeleton (ADVERTISE or REPLY) with the client id copied
// and optionally one unrelated generic option.
func Resp6(msg *dhcpv6.Message, avoid ...uint16) (resp *dhcpv6.Message, extra *dhcpv6.OptionGeneric) {
	resp = &dhcpv6.Message{MessageType: dhcpv6.MessageTypeReply, TransactionID: msg.TransactionID}
	if vnd.Pick("adv", 0, 1) == 1 {
		resp.MessageType = dhcpv6.MessageTypeAdvertise
	}
	if cid := msg.Options.ClientID(); cid != nil {
		resp.AddOption(dhcpv6.OptClientID(cid))
	}
	if vnd.Pick("extra", 0, 1) == 1 {
		c := vnd.U16("extracode")
		vnd.Assume(c != uint16(dhcpv6.OptionClientID))
		for _, a := range avoid {
			vnd.Assume(c != a)
		}
		extra = &dhcpv6.OptionGeneric{OptionCode: dhcpv6.OptionCode(c), OptionData: vnd.Bytes("extraval", 2)}
		resp.AddOption(extra)
	}
	return
}

// CountCode counts the options of resp with the given code.
func CountCode(resp *dhcpv6.Message, code dhcpv6.OptionCode) int {
	return len(resp.Options.Get(code))
}
