package main

import (
	"fmt"
	"go/token"
	"math/big"

	"golang.org/x/tools/go/ssa"
)

type deferred struct {
	fn   Value
	args []Value
}

type Frame struct {
	fn        *ssa.Function
	regs      []Value
	block     *ssa.BasicBlock
	prev      *ssa.BasicBlock
	pc        int
	defers    []deferred
	retTo     ssa.Value // call instruction value in caller (may be nil)
	initCall  bool
	recovered bool
	visits    map[*ssa.BasicBlock]int // loop iterations that followed a symbolic decision
	lastSym   map[*ssa.BasicBlock]int
	symCount  int // symbolic branch decisions taken in this activation
	total     int
	epoch     int     // st.nforks when the frame was pushed
	heapBase  int     // len(st.heap) when the frame was pushed
	fx        fxCount // side-effect counters when the frame was pushed
	pcBase    int     // len(st.pc) when the frame was pushed
	dirty     bool    // wrote to an object older than the frame
	goRoot    bool    // root frame of a goroutine run by vnd.RunGoroutines
	syncOut   *Value  // set for a frame run to completion by callSync: where its result goes
}

type draw struct {
	Label string
	Kind  string
	Terms []*Term
}

type observation struct {
	Label string
	Vals  []Value
}

type panicInfo struct {
	kind      string
	msg       string
	pos       token.Pos
	val       Value
	deferBase int
	stack     string
}

type lockState struct {
	writer  bool
	readers int
}

type access struct {
	Cell  string // allocation tag + path
	Write bool
	Held  string
	Pos   token.Pos
	Fn    string
	Entry string
}

type State struct {
	heap      []*Object
	stack     []*Frame
	pc        []*Term
	known     map[int]bool
	concr     map[int]*big.Int
	globals   map[*ssa.Global]int
	pkgInit   map[*ssa.Package]bool
	strs      map[string]int
	draws     []draw
	picks     map[string]int
	locks     map[string]lockState
	lockOrder []string
	events    []string
	nforks    int
	covers    map[string]bool
	lastMono  *Term
	prevMono  *Term
	clockJump bool
	lastWall  *Term
	obs       []observation
	panicking *panicInfo
	shared    map[int]string // heap object id -> name (C16 lockset logging)
	accesses  []access
	asserts   int
	csections int // number of critical sections opened (Lock calls)
	mapOps    []string
	steps     int
	retDirty  bool // the frame popped last had written to memory older than itself
	recycled  []int // backing arrays handed back to a sync.Pool
	clockReads int
	lockCounts map[string]int // immutable: replaced on update
	goroutines []goroutine    // go statements met so far and not yet run (immutable: replaced on update)
	grouped    map[string]int // (symbolic index term, partition) -> representative index of the element group chosen at a fork (immutable)
}

// goroutine is a go statement's callee and arguments, evaluated at the statement.
type goroutine struct {
	fn   Value
	args []Value
	desc string
}

func newState() *State {
	return &State{known: map[int]bool{}, concr: map[int]*big.Int{}, globals: map[*ssa.Global]int{}, pkgInit: map[*ssa.Package]bool{},
		strs: map[string]int{}, picks: map[string]int{}, locks: map[string]lockState{}, covers: map[string]bool{}, shared: map[int]string{}}
}

func (s *State) clone() *State {
	n := &State{
		heap:      append([]*Object(nil), s.heap...),
		pc:        append([]*Term(nil), s.pc...),
		known:     make(map[int]bool, len(s.known)+1),
		concr:     make(map[int]*big.Int, len(s.concr)+1),
		globals:   make(map[*ssa.Global]int, len(s.globals)),
		pkgInit:   make(map[*ssa.Package]bool, len(s.pkgInit)),
		strs:      make(map[string]int, len(s.strs)),
		draws:     append([]draw(nil), s.draws...),
		picks:     make(map[string]int, len(s.picks)),
		locks:     make(map[string]lockState, len(s.locks)),
		lockOrder: append([]string(nil), s.lockOrder...),
		events:    append([]string(nil), s.events...),
		nforks:    s.nforks,
		covers:    make(map[string]bool, len(s.covers)),
		lastMono:  s.lastMono,
		prevMono:  s.prevMono,
		clockJump: s.clockJump,
		lastWall:  s.lastWall,
		obs:       append([]observation(nil), s.obs...),
		shared:    make(map[int]string, len(s.shared)),
		accesses:  append([]access(nil), s.accesses...),
		asserts:   s.asserts,
		csections: s.csections,
		mapOps:    append([]string(nil), s.mapOps...),
		steps:     s.steps,
		retDirty:  s.retDirty,
		recycled:  s.recycled,
		clockReads: s.clockReads,
		lockCounts: s.lockCounts,
		goroutines: s.goroutines,
		grouped:    s.grouped,
	}
	if s.panicking != nil {
		pi := *s.panicking
		n.panicking = &pi
	}
	for k, v := range s.known {
		n.known[k] = v
	}
	for k, v := range s.concr {
		n.concr[k] = v
	}
	for k, v := range s.globals {
		n.globals[k] = v
	}
	for k, v := range s.pkgInit {
		n.pkgInit[k] = v
	}
	for k, v := range s.strs {
		n.strs[k] = v
	}
	for k, v := range s.picks {
		n.picks[k] = v
	}
	for k, v := range s.locks {
		n.locks[k] = v
	}
	for k, v := range s.covers {
		n.covers[k] = v
	}
	for k, v := range s.shared {
		n.shared[k] = v
	}
	n.stack = make([]*Frame, len(s.stack))
	for i, f := range s.stack {
		nf := *f
		nf.regs = append([]Value(nil), f.regs...)
		nf.defers = append([]deferred(nil), f.defers...)
		if f.visits != nil {
			nf.visits = make(map[*ssa.BasicBlock]int, len(f.visits))
			for k, v := range f.visits {
				nf.visits[k] = v
			}
			nf.lastSym = make(map[*ssa.BasicBlock]int, len(f.lastSym))
			for k, v := range f.lastSym {
				nf.lastSym[k] = v
			}
		}
		n.stack[i] = &nf
	}
	return n
}

func (s *State) alloc(v Value, tag string) int {
	s.heap = append(s.heap, &Object{Cell: v, Tag: tag})
	return len(s.heap) - 1
}

func getPath(v Value, path []int) Value {
	for _, i := range path {
		switch x := v.(type) {
		case Poison:
			return x
		case Struct:
			v = x.F[i]
		case Array:
			if i < 0 || i >= len(x.E) {
				panic(fmt.Sprintf("getPath index %d out of %d", i, len(x.E)))
			}
			v = x.E[i]
		default:
			panic(fmt.Sprintf("getPath through %T", v))
		}
	}
	return v
}

func setPath(v Value, path []int, nv Value) Value {
	if len(path) == 0 {
		return nv
	}
	i := path[0]
	switch x := v.(type) {
	case Poison:
		return x
	case Struct:
		f := append([]Value(nil), x.F...)
		f[i] = setPath(f[i], path[1:], nv)
		return Struct{F: f}
	case Array:
		e := append([]Value(nil), x.E...)
		e[i] = setPath(e[i], path[1:], nv)
		return Array{E: e}
	}
	panic(fmt.Sprintf("setPath through %T", v))
}

func (s *State) load(p Ptr) Value {
	return getPath(s.heap[p.Obj].Cell, p.Path)
}

// touch marks every active frame for which object id already existed when
// the frame was pushed as having written to pre-existing memory.
func (s *State) touch(id int) {
	for i := len(s.stack) - 1; i >= 0; i-- {
		f := s.stack[i]
		if id >= f.heapBase {
			break
		}
		f.dirty = true
	}
}

func (s *State) setCell(id int, cell Value) {
	s.touch(id)
	s.heap[id] = &Object{Cell: cell, Tag: s.heap[id].Tag}
}

func (s *State) store(p Ptr, v Value) {
	s.setCell(p.Obj, setPath(s.heap[p.Obj].Cell, p.Path, v))
}

// arr returns the backing array of a slice.
func (s *State) arr(sl Slice) Array {
	v := getPath(s.heap[sl.Obj].Cell, sl.Path)
	a, ok := v.(Array)
	if !ok {
		panic(fmt.Sprintf("slice backing is %T", v))
	}
	return a
}
func (s *State) setArr(sl Slice, a Array) {
	s.setCell(sl.Obj, setPath(s.heap[sl.Obj].Cell, sl.Path, a))
}

// fxCount summarises the side effects a callee could have besides heap writes.
type fxCount struct {
	draws, picks, covers, locks, events, obs, asserts, csections, accesses int
	mono                                                                *Term
	panicking                                                           bool
}

func (s *State) effects() fxCount {
	// the access log is not a side effect for merging purposes: merged sub-paths contribute the union of their records
	return fxCount{len(s.draws), len(s.picks), len(s.covers), len(s.locks), len(s.events), len(s.obs), s.asserts, s.csections, 0, s.lastMono, s.panicking != nil}
}

func (s *State) top() *Frame { return s.stack[len(s.stack)-1] }

func pathKey(obj int, path []int) string {
	return fmt.Sprint(obj, path)
}
