//go:build verif && verifnative

package vnd

import (
	"runtime"
	"strings"
	"time"
)

// The replay build overlays the standard library's time/time.go with a copy
// whose Now, Since and Until consult these hooks (engine/replay.go). Readings
// requested by code of the repository are taken from the replay file; everyone
// else (the logger, the test framework) sees the real clock.

const modPath = "github.com/coredhcp/coredhcp"

func init() {
	time.VerifClock = func() (uint64, int64, bool) {
		if !callerInRepo() {
			return 0, 0, false
		}
		v, ok := nextClock("Now")
		if !ok || len(v) != 3 {
			return 0, 0, false
		}
		// wall: hasMonotonic | seconds since 1885 (33 bits) | nanoseconds (30 bits); ext: monotonic reading
		return 1<<63 | v[0]<<30 | v[1], int64(v[2]), true
	}
	time.VerifMono = func() (int64, bool) {
		if !callerInRepo() {
			return 0, false
		}
		v, ok := nextClock("Mono")
		if !ok || len(v) != 1 {
			return 0, false
		}
		return int64(v[0]), true
	}
}

// callerInRepo: the innermost function outside package time and this file
// belongs to the repository module.
func callerInRepo() bool {
	pc := make([]uintptr, 24)
	n := runtime.Callers(3, pc)
	frames := runtime.CallersFrames(pc[:n])
	for {
		f, more := frames.Next()
		fn := f.Function
		if fn != "" && !strings.HasPrefix(fn, "time.") && !strings.HasPrefix(fn, modPath+"/internal/vnd.") {
			return fn == modPath || strings.HasPrefix(fn, modPath+"/") || strings.HasPrefix(fn, modPath+".")
		}
		if !more {
			return false
		}
	}
}
