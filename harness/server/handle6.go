//go:build verif

package server

import (
	"errors"
	"net"

	"github.com/coredhcp/coredhcp/handler"
	"github.com/coredhcp/coredhcp/internal/vnd"
	"github.com/insomniacslk/dhcp/dhcpv6"
	"github.com/insomniacslk/dhcp/iana"
	"golang.org/x/net/ipv6"
)

type call6 struct {
	idx       int
	req, resp dhcpv6.DHCPv6
	ret       dhcpv6.DHCPv6
	stop      bool
}

var calls6 []call6

// gHandler6: an arbitrary G6-function (0 pass, 1 modify in place, 2 replace, 3 stop with response, 4 stop with nil).
func gHandler6(i int) handler.Handler6 {
	return func(req, resp dhcpv6.DHCPv6) (ret dhcpv6.DHCPv6, stop bool) {
		ret = resp
		switch vnd.Pick("h"+string(rune('0'+i)), 0, 4) {
		case 1:
			resp.AddOption(&dhcpv6.OptionGeneric{OptionCode: dhcpv6.OptionCode(201), OptionData: vnd.Bytes("adddata", 2)})
		case 2:
			m := resp.(*dhcpv6.Message)
			n := &dhcpv6.Message{MessageType: m.MessageType, TransactionID: m.TransactionID}
			for _, o := range m.Options.Options {
				n.AddOption(o)
			}
			ret = n
		case 3:
			stop = true
		case 4:
			ret, stop = nil, true
		}
		calls6 = append(calls6, call6{i, req, resp, ret, stop})
		return
	}
}

type layer6 struct {
	link, peer []byte
	iid        []byte // nil = absent
}

// parsed6 draws a DHCPv6 datagram as the parser produces it: a client message
// with any type byte, optional client id and rapid commit, wrapped in depth
// Relay-Forward layers (symbolic link/peer addresses, hop count, optional
// Interface-ID, one unknown option).
var outerIsReply bool // the outermost relay layer is typed RELAY-REPL (a datagram a server must not answer)

func parsed6() (d dhcpv6.DHCPv6, msg *dhcpv6.Message, layers []layer6, hasCID, rapid bool, cid []byte) {
	outerIsReply = false
	msg = &dhcpv6.Message{MessageType: dhcpv6.MessageType(vnd.U8("msgtype"))}
	copy(msg.TransactionID[:], vnd.Bytes("xid", 3))
	if vnd.Pick("cid", 0, 1) == 1 {
		hasCID = true
		duid := &dhcpv6.DUIDLL{HWType: iana.HWTypeEthernet, LinkLayerAddr: net.HardwareAddr(vnd.Bytes("cmac", 6))}
		cid = duid.ToBytes()
		msg.AddOption(dhcpv6.OptClientID(duid))
	}
	if vnd.Pick("rapid", 0, 1) == 1 {
		rapid = true
		msg.AddOption(&dhcpv6.OptionGeneric{OptionCode: dhcpv6.OptionRapidCommit})
	}
	d = msg
	depth := vnd.Pick("relay", 0, 4)
	for i := 0; i < depth; i++ {
		ly := layer6{link: vnd.Bytes("link", 16), peer: vnd.Bytes("peeraddr", 16)}
		r := &dhcpv6.RelayMessage{MessageType: dhcpv6.MessageTypeRelayForward, HopCount: vnd.U8("hops"), LinkAddr: net.IP(ly.link), PeerAddr: net.IP(ly.peer)}
		if vnd.Pick("iid"+string(rune('0'+i)), 0, 1) == 1 {
			ly.iid = vnd.Bytes("iid", 3)
			r.AddOption(dhcpv6.OptInterfaceID(ly.iid))
		}
		r.AddOption(&dhcpv6.OptionGeneric{OptionCode: dhcpv6.OptionCode(200), OptionData: vnd.Bytes("unk", 1)})
		r.AddOption(dhcpv6.OptRelayMessage(d))
		if i == depth-1 && vnd.Pick("outertype", 0, 1) == 1 {
			r.MessageType = dhcpv6.MessageTypeRelayReply
			outerIsReply = true
		}
		d = r
		layers = append(layers, ly) // innermost first
	}
	return
}

// VerifH_handle6: HandleMsg6 with real reply constructors and relay
// re-encapsulation (C12, C13, C01).
func VerifH_handle6() {
	sent, calls6 = nil, nil
	nh := vnd.Pick("chain", 0, 2)
	var hs []handler.Handler6
	for i := 0; i < nh; i++ {
		hs = append(hs, gHandler6(i))
	}
	bound := 0
	if vnd.Pick("bound", 0, 1) == 1 {
		bound = vnd.Range("boundidx", 1, 1<<20)
	}
	l := &listener6{Interface: net.Interface{Index: bound}, handlers: hs}
	var oob *ipv6.ControlMessage
	rcvIdx := 0
	if vnd.Pick("oob", 0, 1) == 1 {
		rcvIdx = vnd.Range("rcvidx", 0, 1<<20)
		oob = &ipv6.ControlMessage{IfIndex: rcvIdx}
	}
	src := vnd.Bytes("src", 16)
	port := vnd.Range("srcport", 0, 65535)
	peer := &net.UDPAddr{IP: net.IP(src), Port: port, Zone: "eth0"}
	parseFails := vnd.Pick("parse", 0, 1) == 1
	var d dhcpv6.DHCPv6
	var msg *dhcpv6.Message
	var layers []layer6
	var hasCID, rapid bool
	var cid []byte
	if parseFails {
		stubReq6, stubErr6 = nil, errors.New("short buffer")
	} else {
		d, msg, layers, hasCID, rapid, cid = parsed6()
		stubReq6, stubErr6 = d, nil
	}

	l.HandleMsg6(make([]byte, 100), oob, peer)

	vnd.Assert(l.Interface.Index == bound && l.Interface.Name == "" && len(l.handlers) == nh, "C12 handling a datagram leaves the listener's interface binding as configured")

	vnd.Assert(len(sent) <= 1, "C01 at most one reply per datagram")
	if parseFails {
		vnd.Cover("parse-error")
		vnd.Assert(len(sent) == 0 && len(calls6) == 0, "C12 unparseable datagrams are never answered")
		return
	}
	t := uint8(msg.MessageType)
	replyTypes := t == 3 || t == 4 || t == 5 || t == 6 || t == 8 || t == 11 // REQUEST CONFIRM RENEW REBIND RELEASE INFORMATION-REQUEST
	supported := (t == 1 || replyTypes) && hasCID
	if !supported {
		vnd.Cover("unsupported")
		vnd.Assert(len(sent) == 0, "C12 other message types (and messages without client id) get no reply")
		vnd.Assert(len(calls6) == 0, "C13 handlers are not invoked for messages that are not answerable")
		return
	}
	if outerIsReply {
		vnd.Cover("outer-relay-reply")
		vnd.Assert(len(sent) == 0, "C12 a datagram whose outermost layer is a Relay-Reply gets no reply")
		return
	}
	// dispatch
	var last dhcpv6.DHCPv6
	stopped := false
	ncalls := 0
	for i := 0; i < nh && !stopped; i++ {
		vnd.Assert(len(calls6) > i && calls6[i].idx == i, "C13 handlers run in configured order, at most once each")
		if len(calls6) <= i {
			return
		}
		ncalls++
		vnd.Assert(calls6[i].req == d, "C13 every handler receives the original request")
		if i > 0 {
			vnd.Assert(calls6[i].resp == last, "C13 every handler receives its predecessor's response")
		}
		last, stopped = calls6[i].ret, calls6[i].stop
	}
	vnd.Assert(len(calls6) == ncalls, "C13 nothing runs after the first handler that signals stop")
	if nh > 0 && last == nil {
		vnd.Cover("chain-returned-nil")
		vnd.Assert(len(sent) == 0, "C13 a nil response means nothing is sent")
		return
	}
	vnd.Assert(len(sent) == 1, "C12 a supported client message is answered exactly once")
	if len(sent) != 1 {
		return
	}
	ev := sent[0]
	// destination: the source address and port, pinned when link-local
	ua, ok := ev.peer.(*net.UDPAddr)
	vnd.Assert(ok && ua == peer, "C12 the reply goes back to the source address and port")
	mapped := vnd.And(src[10] == 0xff, src[11] == 0xff)
	for i := 0; i < 10; i++ {
		mapped = vnd.And(mapped, src[i] == 0)
	}
	// fe80::/10, or 169.254/16 when the source is a v4-mapped address
	linkLocal := vnd.Or(vnd.And(src[0] == 0xfe, src[1]&0xc0 == 0x80), vnd.And(mapped, vnd.And(src[12] == 169, src[13] == 254)))
	wantIdx := bound
	if bound == 0 {
		wantIdx = rcvIdx
	}
	if linkLocal {
		vnd.Cover("link-local")
		if wantIdx != 0 {
			vnd.Assert(ev.cm6 != nil && ev.cm6.IfIndex == wantIdx, "C12 replies to link-local sources are pinned to the bound, else the receiving interface")
		}
	} else {
		vnd.Cover("routable")
		vnd.Assert(ev.cm6 == nil, "C12 replies to routable sources are not pinned")
	}
	// what was sent: parse it back with the real codec (concrete structure, symbolic bytes)
	realCodec = true
	out, err := dhcpv6.FromBytes(ev.bytes)
	realCodec = false
	vnd.Assert(err == nil, "C12 the reply is a well-formed DHCPv6 datagram")
	if err != nil {
		return
	}
	// n Relay-Reply layers mirroring the Relay-Forward layers
	cur := out
	for i := len(layers) - 1; i >= 0; i-- {
		r, isRelay := cur.(*dhcpv6.RelayMessage)
		vnd.Assert(isRelay && r.MessageType == dhcpv6.MessageTypeRelayReply, "C12 one Relay-Reply layer per Relay-Forward layer")
		if !isRelay {
			return
		}
		vnd.Assert(bytesAre(r.LinkAddr, layers[i].link) && bytesAre(r.PeerAddr, layers[i].peer), "C12 each layer mirrors link-address and peer-address")
		iid := r.Options.InterfaceID()
		if layers[i].iid == nil {
			vnd.Assert(iid == nil, "C12 Interface-ID is mirrored only where present")
		} else {
			vnd.Assert(bytesAre(iid, layers[i].iid), "C12 each layer mirrors the Interface-ID")
		}
		cur = r.Options.RelayMessage()
		vnd.Assert(cur != nil, "C12 each Relay-Reply encloses the next layer")
		if cur == nil {
			return
		}
	}
	inner, isMsg := cur.(*dhcpv6.Message)
	vnd.Assert(isMsg, "C12 the innermost layer is the server's answer")
	if !isMsg {
		return
	}
	vnd.Cover("answered")
	vnd.Assert(inner.TransactionID == msg.TransactionID, "C12 the reply carries the request's transaction id")
	gotCID := inner.Options.ClientID()
	vnd.Assert(gotCID != nil && bytesAre(gotCID.ToBytes(), cid), "C12 the reply carries the request's client identifier")
	if t == 1 && !rapid {
		vnd.Assert(inner.MessageType == dhcpv6.MessageTypeAdvertise, "C12 SOLICIT is answered with ADVERTISE")
	} else {
		vnd.Assert(inner.MessageType == dhcpv6.MessageTypeReply, "C12 REPLY for SOLICIT with Rapid Commit and for REQUEST/CONFIRM/RENEW/REBIND/RELEASE/INFORMATION-REQUEST")
	}
	if t == 1 && rapid {
		vnd.Assert(inner.GetOneOption(dhcpv6.OptionRapidCommit) != nil, "C12 Rapid Commit is echoed")
	}
	if last != nil {
		if lm, ok := last.(*dhcpv6.Message); ok {
			vnd.Assert(len(inner.Options.Options) == len(lm.Options.Options), "C13 what is sent is the response returned last")
		}
	}
}
