//go:build verif

// Package vc19 drives every built-in plugin through its exported Plugin
// variable: real setup on an argument vector, then - if the configuration is
// accepted - the handler on an arbitrary parsed request, the real serialiser
// and the real parser (C19).
package vc19

import (
	"net"
	"time"

	"github.com/coredhcp/coredhcp/internal/vh"
	"github.com/coredhcp/coredhcp/internal/vnd"
	"github.com/coredhcp/coredhcp/plugins"
	"github.com/coredhcp/coredhcp/plugins/autoconfigure"
	"github.com/coredhcp/coredhcp/plugins/dns"
	"github.com/coredhcp/coredhcp/plugins/ipv6only"
	"github.com/coredhcp/coredhcp/plugins/leasetime"
	"github.com/coredhcp/coredhcp/plugins/mtu"
	"github.com/coredhcp/coredhcp/plugins/nbp"
	"github.com/coredhcp/coredhcp/plugins/netmask"
	"github.com/coredhcp/coredhcp/plugins/prefix"
	"github.com/coredhcp/coredhcp/plugins/router"
	"github.com/coredhcp/coredhcp/plugins/searchdomains"
	"github.com/coredhcp/coredhcp/plugins/serverid"
	"github.com/coredhcp/coredhcp/plugins/sleep"
	"github.com/coredhcp/coredhcp/plugins/staticroute"
	"github.com/insomniacslk/dhcp/dhcpv4"
	"github.com/insomniacslk/dhcp/dhcpv6"
	"github.com/insomniacslk/dhcp/iana"
)

// vec is one argument vector; reject says the configuration cannot be
// honoured and has to be refused at start-up.
type vec struct {
	args   []string
	reject bool
}

func a(reject bool, args ...string) vec { return vec{args, reject} }

type subject struct {
	p    *plugins.Plugin
	vecs []vec
}

var long64 = "aaaaaaaaaaaaaaaaaaaaaaaaaaaaaaaaaaaaaaaaaaaaaaaaaaaaaaaaaaaaaaaa"

var subjects4 = map[string]subject{
	"dns": {&dns.Plugin, []vec{a(false, "8.8.8.8"), a(false, "8.8.8.8", "1.1.1.1", "::ffff:9.9.9.9"), a(true), a(true, "2001:db8::1"), a(true, "8.8.8.8", "nope"), a(true, ""), a(true, "8.8.8.256")}},
	"router": {&router.Plugin, []vec{a(false, "192.0.2.1"), a(false, "192.0.2.1", "192.0.2.2"), a(true), a(true, "2001:db8::1"), a(true, "192.0.2.1", "x")}},
	"netmask": {&netmask.Plugin, []vec{a(false, "255.255.255.0"), a(false, "255.255.255.255"), a(false, "128.0.0.0"), a(true, "0.0.0.0"), a(true, "255.0.255.0"), a(true, "ffff:ff00::"), a(true), a(true, "255.255.255.0", "x"), a(true, "24")}},
	"mtu": {&mtu.Plugin, []vec{a(false, "1500"), a(false, "68"), a(false, "65535"), a(true, "65536"), a(true, "-1"), a(true, "1e3"), a(true), a(true, "1500", "9000"), a(true, "99999999999999999999")}},
	"lease_time": {&leasetime.Plugin, []vec{a(false, "3600s"), a(false, "1h30m"), a(false, "1s"), a(true, "-1h"), a(true, "100000000h"), a(true, "3600"), a(true), a(true, "forever")}},
	"ipv6only": {&ipv6only.Plugin, []vec{a(false), a(false, "300s"), a(false, "30m"), a(true, "-5s"), a(true, "300s", "x"), a(true, "soon")}},
	"autoconfigure": {&autoconfigure.Plugin, []vec{a(false), a(false, "0"), a(false, "1"), a(false, "AutoConfigure"), a(false, "DoNotAutoConfigure"), a(true, "2"), a(true, "1", "1"), a(true, "")}},
	"staticroute": {&staticroute.Plugin, []vec{a(false, "10.0.0.0/8,192.0.2.1"), a(false, "0.0.0.0/0,192.0.2.1", "10.1.2.3/32,192.0.2.2"), a(true), a(true, "2001:db8::/32,2001:db8::1"),
		a(true, "10.0.0.0/8,2001:db8::1"), a(true, "2001:db8::/32,192.0.2.1"), a(true, "10.0.0.0/8"), a(true, "10.0.0.0/33,192.0.2.1"), a(true, "10.0.0.0/8,192.0.2.1,x"),
		a(true, "::ffff:10.0.0.0/104,192.0.2.1"), a(false, "10.0.0.0/8,::ffff:192.0.2.1"), a(true, "::ffff:10.1.2.3/128,192.0.2.1")}},
	"searchdomains": {&searchdomains.Plugin, []vec{a(false, "example.com"), a(false, "example.com", "sub.example.org"), a(false)}},
	"nbp": {&nbp.Plugin, []vec{a(false, "tftp://192.0.2.5/boot.efi"), a(false, "http://boot.example.com/ipxe?params=x"), a(false, "boot.efi"), a(true), a(true, "a", "b"), a(true, "http://[::1")}},
	"server_id": {&serverid.Plugin, []vec{a(false, "192.0.2.1"), a(true, "2001:db8::1"), a(true), a(true, "x")}},
	"sleep": {&sleep.Plugin, []vec{a(false, "10ms"), a(false, "0s"), a(true), a(true, "x"), a(true, "1s", "2s")}},
}

var subjects6 = map[string]subject{
	"dns": {&dns.Plugin, []vec{a(false, "2001:4860:4860::8888"), a(false, "2001:db8::1", "2001:db8::2"), a(true), a(true, "nope"), a(true, "")}},
	"searchdomains": {&searchdomains.Plugin, []vec{a(false, "example.com"), a(false, "example.com", "sub.example.org"), a(false)}},
	"nbp": {&nbp.Plugin, []vec{a(false, "tftp://[2001:db8::5]/boot.efi"), a(false, "http://boot.example.com/ipxe?params=a%20b"), a(true), a(true, "http://[::1")}},
	"server_id": {&serverid.Plugin, []vec{a(false, "LL", "00:11:22:33:44:55"), a(false, "llt", "00:11:22:33:44:55"), a(true, "en", "00:11:22:33:44:55"), a(true, "ll"), a(true, "ll", "zz"), a(true)}},
	"sleep": {&sleep.Plugin, []vec{a(false, "10ms"), a(true), a(true, "x")}},
	"prefix": {&prefix.Plugin, []vec{a(false, "2001:db8::/56", "64"), a(false, "2001:db8::/64", "64"), a(false, "2001:db8::/120", "128"), a(true, "10.0.0.0/8", "24"), a(true, "::ffff:10.0.0.0/104", "112"),
		a(true, "2001:db8::/56", "48"), a(true, "2001:db8::/56", "129"), a(true, "2001:db8::/56"), a(true, "2001:db8::/56", "x"), a(true, "2001:db8::/0", "64"), a(true, "nonsense", "64")}},
}

var order4 = []string{"dns", "router", "netmask", "mtu", "lease_time", "ipv6only", "autoconfigure", "staticroute", "searchdomains", "nbp", "server_id", "sleep"}
var order6 = []string{"dns", "searchdomains", "nbp", "server_id", "sleep", "prefix"}

// VerifH_c19_v4: every DHCPv4 plugin.
func VerifH_c19_v4() {
	name := order4[vnd.Pick("plugin", 0, len(order4)-1)]
	s := subjects4[name]
	vnd.Assert(s.p.Name == name, "C19 the plugin is registered under its documented name")
	i := vnd.Pick("vector", 0, 13)
	if i >= len(s.vecs) {
		vnd.Assume(false)
	}
	v := s.vecs[i]
	h, err := s.p.Setup4(v.args...)
	if err != nil {
		vnd.Cover("rejected")
		vnd.Assert(v.reject, "C19 a configuration that can be honoured is accepted")
		return
	}
	vnd.Cover("accepted")
	vnd.AssertFinding("C19-"+name+"-accepts-unhonourable", !v.reject, "C19 arguments that cannot be honoured on the wire are rejected at start-up")
	vnd.Assert(h != nil, "C19 an accepted configuration comes with a handler")
	if h == nil {
		return
	}
	req := vh.Req4()
	vh.PRL(req)
	if vnd.Pick("reqopts", 0, 1) == 1 {
		req.Options[uint8(dhcpv4.OptionAutoConfigure)] = vnd.Bytes("ac", 1)
		req.Options[uint8(dhcpv4.OptionHostName)] = vnd.Bytes("host", 2)
		req.Options[uint8(dhcpv4.OptionServerIdentifier)] = []byte{192, 0, 2, 1}
	}
	resp, _, _ := vh.Resp4(req)

	r, stop := h(req, resp)

	if r == nil {
		vnd.Cover("dropped")
		vnd.Assert(stop, "C19 a nil response comes with stop")
		return
	}
	wire := r.ToBytes()
	back, perr := dhcpv4.FromBytes(wire)
	vnd.Assert(perr == nil, "C19 the reply parses back")
	if perr != nil {
		return
	}
	vnd.Cover("round-trip")
	vnd.Assert(len(back.Options) == len(r.Options), "C19 the reply parses back to the same set of options")
	for code, val := range r.Options {
		vnd.Assert(vh.BytesAre(back.Options[code], val), "C19 every option parses back to the same value")
	}
	vnd.Assert(back.OpCode == r.OpCode && back.TransactionID == r.TransactionID, "C19 the header parses back")
	yi, si := r.YourIPAddr.To4(), r.ServerIPAddr.To4()
	if yi != nil {
		vnd.Assert(vh.BytesAre(back.YourIPAddr, yi), "C19 yiaddr parses back")
	}
	if si != nil {
		vnd.Assert(vh.BytesAre(back.ServerIPAddr, si), "C19 siaddr parses back")
	}
	vnd.Observe("wire", len(wire))
}

// VerifH_c19_v6: every DHCPv6 plugin.
func VerifH_c19_v6() {
	name := order6[vnd.Pick("plugin", 0, len(order6)-1)]
	s := subjects6[name]
	i := vnd.Pick("vector", 0, 11)
	if i >= len(s.vecs) {
		vnd.Assume(false)
	}
	v := s.vecs[i]
	h, err := s.p.Setup6(v.args...)
	if err != nil {
		vnd.Cover("rejected")
		vnd.Assert(v.reject, "C19 a configuration that can be honoured is accepted")
		return
	}
	vnd.Cover("accepted")
	vnd.AssertFinding("C19-"+name+"-accepts-unhonourable", !v.reject, "C19 arguments that cannot be honoured on the wire are rejected at start-up")
	vnd.Assert(h != nil, "C19 an accepted configuration comes with a handler")
	if h == nil {
		return
	}
	inner, msg := vh.Req6()
	vh.ORO(msg)
	switch vnd.Pick("ia", 0, 3) {
	case 1:
		msg.AddOption(&dhcpv6.OptIAPD{IaId: [4]byte{1, 2, 3, 4}})
	case 2:
		pd := &dhcpv6.OptIAPD{IaId: [4]byte{1, 2, 3, 4}}
		pd.Options.Add(&dhcpv6.OptIAPrefix{Prefix: &net.IPNet{IP: net.IP(vnd.Bytes("hint", 16)), Mask: net.CIDRMask(64, 128)}})
		msg.AddOption(pd)
	case 3:
		pd := &dhcpv6.OptIAPD{IaId: [4]byte{1, 2, 3, 4}}
		pd.Options.Add(&dhcpv6.OptIAPrefix{Prefix: nil})
		msg.AddOption(pd)
		msg.AddOption(dhcpv6.OptServerID(&dhcpv6.DUIDLL{HWType: iana.HWTypeEthernet, LinkLayerAddr: net.HardwareAddr{0, 0x11, 0x22, 0x33, 0x44, 0x55}}))
	}
	req := vh.Relay(inner, vnd.Pick("relay", 0, 1))
	resp, _ := vh.Resp6(msg)

	r, stop := h(req, resp)

	if r == nil {
		vnd.Cover("dropped")
		vnd.Assert(stop, "C19 a nil response comes with stop")
		return
	}
	// lifetimes are serialised through a division by 1e9: keep them concrete for the encoder
	if m, ok := r.(*dhcpv6.Message); ok {
		for _, pd := range m.Options.IAPD() {
			for _, p := range pd.Options.Prefixes() {
				vnd.Assert(p.ValidLifetime > 0 && p.ValidLifetime <= time.Hour, "C19 delegated lifetimes are within range")
				p.ValidLifetime, p.PreferredLifetime = time.Hour, time.Hour
			}
		}
	}
	wire := r.ToBytes()
	back, perr := dhcpv6.FromBytes(wire)
	vnd.Assert(perr == nil, "C19 the reply parses back")
	if perr != nil {
		return
	}
	vnd.Cover("round-trip")
	vnd.Assert(vh.BytesAre(back.ToBytes(), wire), "C19 the reply parses back to the same options")
	vnd.Observe("wire", len(wire))
}
