//go:build verif

package nbp

import (
	"github.com/coredhcp/coredhcp/internal/vh"
	"github.com/coredhcp/coredhcp/internal/vnd"
	"github.com/insomniacslk/dhcp/dhcpv4"
	"github.com/insomniacslk/dhcp/dhcpv6"
)

// VerifH_nbp4: configuration = (TFTP server name present or not, boot file) as
// setup4 leaves it: http(s)/ftp URLs set only option 67, other schemes 66 and 67.
func VerifH_nbp4() {
	file := string(vnd.Bytes("file", 3))
	obfn := dhcpv4.OptBootFileName(file)
	opt67 = &obfn
	opt66 = nil
	host := ""
	if vnd.Pick("tftp", 0, 1) == 1 {
		host = string(vnd.Bytes("host", 3))
		otsn := dhcpv4.OptTFTPServerName(host)
		opt66 = &otsn
	}
	req := vh.Req4()
	kind, codes := vh.PRL(req)
	resp, ec, ev := vh.Resp4(req, uint8(dhcpv4.OptionTFTPServerName), uint8(dhcpv4.OptionBootfileName))
	n0 := len(resp.Options)

	r, stop := nbpHandler4(req, resp)
	vnd.Assert(r != nil || stop, "C13 a built-in handler returns a nil response only together with stop")
	vnd.Assert(r != nil || stop, "C01 no handler passes a nil response on to its successors (they would dereference it)")

	vnd.Assert(r == resp, "C17 nbp4 passes the response on")
	want66 := opt66 != nil && (kind != 2 || vh.Listed(codes, uint8(dhcpv4.OptionTFTPServerName)))
	want67 := kind != 2 || vh.Listed(codes, uint8(dhcpv4.OptionBootfileName))
	g66, p66 := resp.Options[uint8(dhcpv4.OptionTFTPServerName)]
	g67, p67 := resp.Options[uint8(dhcpv4.OptionBootfileName)]
	n := n0
	if want66 {
		vnd.Cover("tftp-sent")
		vnd.Assert(p66 && vh.BytesAre(g66, []byte(host)), "C17 nbp4 emits the TFTP server name when requested")
		n++
	} else {
		vnd.Assert(!p66, "C17 nbp4 sends the TFTP server name only when configured and requested")
	}
	if want67 {
		vnd.Cover("bootfile-sent")
		vnd.Assert(p67 && vh.BytesAre(g67, []byte(file)), "C17 nbp4 emits the boot file name when requested")
		n++
	} else {
		vnd.Cover("bootfile-withheld")
		vnd.Assert(!p67, "C17 nbp4 sends the boot file name only when requested")
	}
	vnd.Assert(vh.Untouched4(resp, req, ec, ev, n), "C17 nbp4 leaves everything else untouched")
}

func VerifH_nbp6() {
	url := string(vnd.Bytes("url", 4))
	opt59 = dhcpv6.OptBootFileURL(url)
	opt60 = nil
	var params []byte
	if vnd.Pick("params", 0, 1) == 1 {
		params = vnd.Bytes("params", 2)
		opt60 = &dhcpv6.OptionGeneric{OptionCode: dhcpv6.OptionBootfileParam, OptionData: params}
	}
	inner, msg := vh.Req6()
	kind, codes := vh.ORO(msg)
	req := vh.Relay(inner, vnd.Pick("relay", 0, 1))
	resp, _ := vh.Resp6(msg, uint16(dhcpv6.OptionBootfileURL), uint16(dhcpv6.OptionBootfileParam))
	n0 := len(resp.Options.Options)

	r, stop := nbpHandler6(req, resp)
	vnd.Assert(r != nil || stop, "C13 a built-in handler returns a nil response only together with stop")
	vnd.Assert(r != nil || stop, "C01 no handler passes a nil response on to its successors (they would dereference it)")

	vnd.Assert(r == dhcpv6.DHCPv6(resp), "C17 nbp6 passes the response on")
	nURL, nParam := 0, 0
	if kind == 1 {
		for _, c := range codes {
			nURL += vnd.IteInt(c == uint16(dhcpv6.OptionBootfileURL), 1, 0)
			nParam += vnd.IteInt(c == uint16(dhcpv6.OptionBootfileParam), 1, 0)
		}
	}
	gotURL := resp.Options.Get(dhcpv6.OptionBootfileURL)
	gotParam := resp.Options.Get(dhcpv6.OptionBootfileParam)
	vnd.Assert((len(gotURL) > 0) == (nURL > 0), "C17 nbp6 sends the boot file URL exactly when it is requested")
	if opt60 == nil {
		vnd.Cover("no-params")
		vnd.Assert(len(gotParam) == 0, "C17 nbp6 sends boot file parameters only when configured")
	} else {
		vnd.Cover("params")
		vnd.Assert((len(gotParam) > 0) == (nParam > 0), "C17 nbp6 sends boot file parameters exactly when requested")
	}
	vnd.AssertFinding("C17-nbp6-duplicate-options", len(gotURL) <= 1 && len(gotParam) <= 1, "C17 nbp6 adds each option once")
	if len(gotURL) > 0 {
		vnd.Assert(vh.BytesAre(gotURL[0].ToBytes(), []byte(url)), "C17 nbp6 emits the configured URL")
	}
	if len(gotParam) > 0 {
		vnd.Assert(vh.BytesAre(gotParam[0].ToBytes(), params), "C17 nbp6 emits the configured parameters")
	}
	vnd.Assert(len(resp.Options.Options) == n0+len(gotURL)+len(gotParam), "C17 nbp6 leaves everything else untouched")
}
