#!/bin/bash
# usage: tools/seedtest.sh <agent-worktree> <seed-name> <property> [<property>...]
# 1. confirms the seeded change independently in a fresh scratch worktree
# 2. runs the quick checks of the given properties against that scratch worktree (VERIF_REPO)
set -u
src=$1; name=$2; shift 2
export GOFLAGS=-mod=mod GOPROXY=off GOSUMDB=off GOTOOLCHAIN=local
out=/verif/seeded/$name
mkdir -p $out/demo
cp $src/seed.patch $out/patch.diff
[ -f $src/seed.md ] && cp $src/seed.md $out/agent_notes.md
# where do the demonstration tests live? (the agent copied them into place)
demos=$(cd $src && git status --porcelain | grep '^??' | awk '{print $2}' | grep '_test.go$' | grep -v '^zz_demo/')
sv=/tmp/sv/$name
rm -rf $sv; git -C /repo worktree prune; git -C /repo worktree add -q $sv HEAD || exit 2
res_demo_clean=skip; res_build=skip; res_tests=skip; res_demo_seeded=skip
pkgs=""
for d in $demos; do mkdir -p $out/demo/$(dirname $d); cp $src/$d $out/demo/$d; cp $src/$d $sv/$d; pkgs="$pkgs ./$(dirname $d)/"; done
pkgs=$(echo $pkgs | tr ' ' '\n' | sort -u | tr '\n' ' ')
run=$(grep -ho 'func Test[A-Za-z0-9_]*' $(for d in $demos; do echo $src/$d; done) | sed 's/func //' | sort -u | tr '\n' '|' | sed 's/|$//')
(cd $sv && go test -vet=off -count=1 -run "^($run)\$" $pkgs > /tmp/sv/$name.clean.log 2>&1) && res_demo_clean=pass || res_demo_clean=FAIL
(cd $sv && git apply $out/patch.diff) || { echo "patch does not apply"; exit 2; }
(cd $sv && go build ./... > /tmp/sv/$name.build.log 2>&1) && res_build=ok || res_build=FAIL
for d in $demos; do rm -f $sv/$d; done
(cd $sv && go test -vet=off -count=1 ./... > /tmp/sv/$name.tests.log 2>&1) && res_tests=pass || res_tests=FAIL
for d in $demos; do cp $src/$d $sv/$d; done
(cd $sv && go test -vet=off -count=1 -run "^($run)\$" $pkgs > /tmp/sv/$name.seeded.log 2>&1) && res_demo_seeded=PASS-unexpected || res_demo_seeded=fails
for d in $demos; do rm -f $sv/$d; done
echo "confirm: demo-on-clean=$res_demo_clean build=$res_build existing-tests=$res_tests demo-on-seeded=$res_demo_seeded"
# run the checks against the seeded scratch tree (VERIF_REPO: /repo itself is not touched)
export VERIF_REPO=$sv VERIF_OUT=/tmp/sv/out_$name
mkdir -p $VERIF_OUT
results=""
for p in "$@"; do
  o=$(cd /verif && timeout 1500 bin/gosymex check -property $p -tier quick 2>&1); rc=$?
  v=$(echo "$o" | grep -c '^VIOLATION')
  echo "check $p: exit=$rc violations=$v :: $(echo "$o" | grep -A1 '^VIOLATION' | grep 'label=' | head -2 | sed 's/.*label=\("[^"]*"\).*native=\(.*\)/\1 native=\2/' | cut -c1-200 | tr '\n' ';')"
  echo "$o" | grep '^INCONCLUSIVE\|^ENCODER\|^HARNESS' | head -3 | cut -c1-200
  results="$results\"$p\":{\"exit\":$rc,\"violation_lines\":$v},"
done
git -C /repo worktree remove --force $sv; rm -rf $VERIF_OUT
cat > $out/meta.json <<EOM
{"seed":"$name","breaks_properties_per_author":"see agent_notes.md","confirmed":{"demo_on_unchanged_tree":"$res_demo_clean","build_with_change":"$res_build","existing_tests_with_change":"$res_tests","demo_with_change":"$res_demo_seeded"},
 "demo_tests":"$run","demo_packages":"$pkgs","checks_run_quick":{${results%,}},"ran":"tools/seedtest.sh at $(date -u +%FT%TZ) against /repo $(git -C /repo log --format=%h -1)"}
EOM
