//go:build verif

package file

import "net"

// installTable / currentTable name the table a protocol's handler serves from:
// StaticRecords for DHCPv6, staticRecords4 for DHCPv4.
func installTable(v6 bool, t map[string]net.IP) {
	recLock.Lock()
	if v6 {
		StaticRecords = t
	} else {
		staticRecords4 = t
	}
	recLock.Unlock()
}

func currentTable(v6 bool) map[string]net.IP {
	recLock.RLock()
	defer recLock.RUnlock()
	if v6 {
		return StaticRecords
	}
	return staticRecords4
}
