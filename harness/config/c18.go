//go:build verif

package config

import (
	"errors"
	"net"

	"github.com/coredhcp/coredhcp/internal/vnd"
	"github.com/spf13/viper"
)

// ---- viper boundary: YAML text -> Go values is out of reach (reflection,
// unbounded scanner loops); the harness supplies the value tree viper.Get
// would return for each key ----

var tree map[string]interface{}

func stubViperNew() *viper.Viper                            { return new(viper.Viper) }
func stubViperNop1(v *viper.Viper, s string)                {}
func stubViperRead(v *viper.Viper) error                    { return readErr }
func stubViperGet(v *viper.Viper, key string) interface{}   { return tree[key] }
func stubIndirect(a interface{}) interface{}                { return a }
func stubJSON(s string, v interface{}) error                { return errors.New("not json") }

var readErr error

var ifaces []net.Interface

func stubInterfaces() ([]net.Interface, error) {
	if ifaces == nil {
		return nil, errors.New("route ip+net: netlinkrib: operation not permitted")
	}
	return ifaces, nil
}

// argument value shapes YAML can produce for a plugin item
func argValue(label string) (v interface{}, fields []string) {
	switch vnd.Pick(label, 0, 7) {
	case 0:
		return nil, nil
	case 1:
		return "", nil
	case 2:
		return "one", []string{"one"}
	case 3:
		return "  a \t bb  c\n", []string{"a", "bb", "c"}
	case 4:
		return 42, []string{"42"}
	case 5:
		return true, []string{"true"}
	case 6:
		return "2001:db8::/56 64", []string{"2001:db8::/56", "64"}
	}
	// a string of symbolic letters, digits and blanks
	b := vnd.Bytes(label+"sym", 3)
	cur := ""
	for _, c := range b {
		isSpace := vnd.Or(c == ' ', c == '\t')
		vnd.Assume(vnd.Or(isSpace, vnd.Or(vnd.And(c >= 'a', c <= 'z'), vnd.And(c >= '0', c <= '9'))))
		if isSpace {
			if cur != "" {
				fields = append(fields, cur)
			}
			cur = ""
		} else {
			cur += string([]byte{c})
		}
	}
	if cur != "" {
		fields = append(fields, cur)
	}
	return string(b), fields
}

func sameStrings(a, b []string) bool {
	if len(a) != len(b) {
		return false
	}
	for i := range a {
		if a[i] != b[i] {
			return false
		}
	}
	return true
}

// VerifH_config_plugins: the plugin list is exactly the listed items in file
// order with whitespace-separated arguments; every malformed shape is an error.
func VerifH_config_plugins() {
	tree = map[string]interface{}{"server4": map[string]interface{}{}, "server4.listen": "0.0.0.0"}
	var want []PluginConfig
	bad := false
	switch vnd.Pick("plugins", 0, 4) {
	case 0: // absent
		bad = true
	case 1: // scalar
		tree["server4.plugins"] = "dns"
		bad = true
	case 2: // empty list
		tree["server4.plugins"] = []interface{}{}
		bad = true
	case 3: // a map instead of a list
		tree["server4.plugins"] = map[string]interface{}{"dns": "8.8.8.8"}
		bad = true
	case 4:
		n := vnd.Pick("items", 1, 3)
		var list []interface{}
		for i := 0; i < n; i++ {
			ls := string(rune('0' + i))
			name := []string{"dns", "server_id", "x"}[i]
			switch vnd.Pick("item"+ls, 0, 5) {
			case 0: // one-key map (string keys, as yaml.v3 produces)
				v, f := argValue("arg" + ls)
				list = append(list, map[string]interface{}{name: v})
				want = append(want, PluginConfig{Name: name, Args: f})
			case 1: // one-key map with interface keys (older decoders)
				v, f := argValue("arg" + ls)
				list = append(list, map[interface{}]interface{}{name: v})
				want = append(want, PluginConfig{Name: name, Args: f})
			case 2: // two plugins in one item
				list = append(list, map[string]interface{}{name: "a", "other": "b"})
				bad = true
			case 3: // scalar item
				list = append(list, name)
				bad = true
			case 4: // null item
				list = append(list, nil)
				bad = true
			case 5: // empty map
				list = append(list, map[string]interface{}{})
				bad = true
			}
		}
		tree["server4.plugins"] = list
	}
	readErr = nil

	c, err := Load("config.yml")

	if bad {
		vnd.Cover("rejected")
		vnd.Assert(err != nil && c == nil, "C18 a missing, empty or non-list plugins section, or an item naming several plugins, is rejected")
		return
	}
	vnd.Cover("accepted")
	vnd.Assert(err == nil && c != nil && c.Server4 != nil && c.Server6 == nil, "C18 a well-formed configuration loads")
	if err != nil || c == nil || c.Server4 == nil {
		return
	}
	got := c.Server4.Plugins
	vnd.Assert(len(got) == len(want), "C18 exactly the listed plugins")
	if len(got) == len(want) {
		for i := range want {
			vnd.Assert(got[i].Name == want[i].Name, "C18 plugins in file order")
			vnd.Assert(sameStrings(got[i].Args, want[i].Args), "C18 arguments are the whitespace-separated fields of the value")
		}
	}
}

type lcase struct {
	s      string
	ok4    bool
	ok6    bool
	ip     string // expected address (textual) when accepted; "" = wildcard
	port   int    // the port written in the string (meaningful when hasPort), else the protocol default applies
	hasPort bool
	zone   string
	expand bool // zoneless link-local multicast: one listener per suitable interface
}

var listenCases = []lcase{
	{s: "0.0.0.0", ok4: true, ip: "0.0.0.0"}, {s: "192.0.2.1", ok4: true, ip: "192.0.2.1"}, {s: "192.0.2.1:6767", ok4: true, ip: "192.0.2.1", hasPort: true, port: 6767},
	{s: ":67", ok4: true, ok6: true, hasPort: true, port: 67}, {s: "%eth0", ok4: true, ok6: true, zone: "eth0"}, {s: "%eth0:1067", ok4: true, ok6: true, zone: "eth0", hasPort: true, port: 1067},
	{s: "192.0.2.1%eth1", ok4: true, ip: "192.0.2.1", zone: "eth1"}, {s: "[192.0.2.1%eth1]:68", ok4: true, ip: "192.0.2.1", zone: "eth1", hasPort: true, port: 68},
	{s: "[::]", ok6: true, ip: "::"}, {s: "[::]:547", ok6: true, ip: "::", hasPort: true, port: 547}, {s: "[::]:", ok6: true, ip: "::"}, {s: "[2001:db8::1]", ok6: true, ip: "2001:db8::1"},
	{s: "[2001:db8::1]:1547", ok6: true, ip: "2001:db8::1", hasPort: true, port: 1547}, {s: "[fe80::1%eth0]:547", ok6: true, ip: "fe80::1", zone: "eth0", hasPort: true, port: 547}, {s: "[fe80::1%eth0]", ok6: true, ip: "fe80::1", zone: "eth0"},
	{s: "[ff02::1:2%eth0]", ok6: true, ip: "ff02::1:2", zone: "eth0"}, {s: "[ff02::1:2]", ok6: true, ip: "ff02::1:2", expand: true}, {s: "[ff02::1:2]:547", ok6: true, ip: "ff02::1:2", hasPort: true, port: 547, expand: true},
	{s: "224.0.0.1", ok4: true, ip: "224.0.0.1", expand: true}, {s: "[ff05::1:3]", ok6: true, ip: "ff05::1:3"},
	{s: "[::ffff:192.0.2.1]", ok4: true, ip: "192.0.2.1"}, // a v4-mapped literal is an IPv4 address
	{s: "192.0.2.1:0", ok4: true, ip: "192.0.2.1", hasPort: true, port: 0}, {s: "[::1]:0", ok6: true, ip: "::1", hasPort: true, port: 0}, {s: ":00", ok4: true, ok6: true, hasPort: true, port: 0},
	{s: "192.0.2.1:65535", ok4: true, ip: "192.0.2.1", hasPort: true, port: 65535},
	// brackets are mandatory for IPv6 literals (config_test.go), everything below is rejected for both protocols
	{s: "::"}, {s: "2001:db8::1"}, {s: "fe80::1%eth0"}, {s: "ff02::1:2"},
	{s: "garbage"}, {s: "192.0.2.256"}, {s: "192.0.2.1:port"}, {s: "[::1"}, {s: "::1]:5"}, {s: "1.2.3.4:5:6"}, {s: "host.example.com"}, {s: "[2001:db8::1]x"},
}

func flagsOf(k int) net.Flags {
	return []net.Flags{net.FlagUp | net.FlagMulticast | net.FlagBroadcast, net.FlagUp | net.FlagMulticast, net.FlagUp | net.FlagLoopback, net.FlagUp | net.FlagBroadcast}[k]
}

// VerifH_config_listen: listen addresses parsed as [address][%zone][:port], defaults
// filled in, wrong families and unparseable values rejected, multicast expanded.
func VerifH_config_listen() {
	v6 := vnd.Pick("proto", 0, 1) == 1
	sec := "server4"
	if v6 {
		sec = "server6"
	}
	lc := listenCases[vnd.Pick("case", 0, len(listenCases)-1)]
	tree = map[string]interface{}{sec: map[string]interface{}{}, sec + ".plugins": []interface{}{map[string]interface{}{"dns": "x"}}}
	form := vnd.Pick("form", 0, 2) // scalar, one-element list, two-element list (second: the wildcard)
	switch form {
	case 0:
		tree[sec+".listen"] = lc.s
	case 1:
		tree[sec+".listen"] = []interface{}{lc.s}
	case 2:
		tree[sec+".listen"] = []interface{}{lc.s, ":1"}
	}
	ifaces = nil
	nif := vnd.Pick("ifaces", 0, 2)
	suitable := 0
	for i := 0; i < nif; i++ {
		k := vnd.Pick("ifflags"+string(rune('0'+i)), 0, 3)
		ifaces = append(ifaces, net.Interface{Index: i + 1, Name: []string{"eth0", "eth1"}[i], Flags: flagsOf(k)})
		if k == 0 || (k == 1 && v6) {
			suitable++
		}
	}
	if nif == 0 {
		ifaces = []net.Interface{}
	}
	readErr = nil

	c, err := Load("config.yml")

	ok := lc.ok4
	def := 67
	if v6 {
		ok, def = lc.ok6, 547
	}
	if ok && lc.expand && suitable == 0 {
		vnd.Cover("no-interface")
		vnd.Assert(err != nil, "C18 a multicast listener without any suitable interface is an error")
		return
	}
	if !ok {
		vnd.Cover("rejected")
		vnd.Assert(err != nil && c == nil, "C18 wrong family, unparseable address or port are rejected")
		return
	}
	vnd.Cover("accepted")
	vnd.Assert(err == nil && c != nil, "C18 a valid listen address loads")
	if err != nil || c == nil {
		return
	}
	sc := c.Server4
	if v6 {
		sc = c.Server6
	}
	vnd.Assert(sc != nil, "C18 the protocol section is filled in")
	if sc == nil {
		return
	}
	n := 1
	if lc.expand {
		n = suitable
	}
	total := n
	if form == 2 {
		total++
	}
	vnd.Assert(len(sc.Addresses) == total, "C18 one listener per address (per suitable interface for zoneless link-local multicast)")
	if len(sc.Addresses) != total {
		return
	}
	wantPort := lc.port
	if !lc.hasPort {
		wantPort = def
	}
	for i := 0; i < n; i++ {
		a := sc.Addresses[i]
		vnd.Assert(a.Port == wantPort, "C18 the default port is filled in when omitted")
		if lc.ip == "" {
			vnd.Assert(a.IP.IsUnspecified() && (a.IP.To4() != nil) == !v6, "C18 the protocol's wildcard address is filled in when omitted")
		} else {
			vnd.Assert(a.IP.Equal(net.ParseIP(lc.ip)), "C18 the address is parsed")
		}
		if lc.expand {
			vnd.Assert(a.Zone != "", "C18 expanded multicast listeners are zoned")
		} else {
			vnd.Assert(a.Zone == lc.zone, "C18 the zone is extracted")
		}
	}
	if form == 2 {
		vnd.Assert(sc.Addresses[total-1].Port == 1, "C18 listeners keep file order")
	}
}

// VerifH_config_sections: which sections exist, listen vs interface, defaults.
func VerifH_config_sections() {
	has4, has6 := vnd.Pick("server4", 0, 1) == 1, vnd.Pick("server6", 0, 1) == 1
	tree = map[string]interface{}{}
	pl := []interface{}{map[string]interface{}{"dns": "x"}}
	ifaces = []net.Interface{{Index: 1, Name: "eth0", Flags: flagsOf(0)}, {Index: 2, Name: "lo", Flags: flagsOf(2)}}
	bad := false
	mode := vnd.Pick("listenmode", 0, 3) // 0 neither, 1 listen, 2 interface, 3 both
	for _, s := range []struct {
		on  bool
		sec string
	}{{has4, "server4"}, {has6, "server6"}} {
		if !s.on {
			continue
		}
		tree[s.sec] = map[string]interface{}{}
		tree[s.sec+".plugins"] = pl
		switch mode {
		case 1:
			tree[s.sec+".listen"] = "%eth0"
		case 2:
			tree[s.sec+".interface"] = "eth0"
		case 3:
			// listen in each of its forms: a scalar, a one-element list, a two-element list
			switch vnd.Pick("bothform", 0, 2) {
			case 0:
				tree[s.sec+".listen"] = "%eth0"
			case 1:
				tree[s.sec+".listen"] = []interface{}{"%eth0"}
			case 2:
				tree[s.sec+".listen"] = []interface{}{"%eth0", ":1"}
			}
			tree[s.sec+".interface"] = "eth0"
			bad = true
		}
	}
	readErr = nil
	if vnd.Pick("readfails", 0, 1) == 1 {
		readErr = errors.New("config file not found")
	}
	c, err := Load("")
	if readErr != nil {
		vnd.Cover("unreadable")
		vnd.Assert(err != nil && c == nil, "C18 an unreadable file is an error")
		return
	}
	if !has4 && !has6 {
		vnd.Cover("no-section")
		vnd.Assert(err != nil && c == nil, "C18 a configuration without any protocol section is rejected")
		return
	}
	if bad {
		vnd.Cover("listen-and-interface")
		vnd.Assert(err != nil && c == nil, "C18 using both listen and interface is rejected")
		return
	}
	vnd.Cover("loaded")
	vnd.Assert(err == nil && c != nil, "C18 a valid configuration loads")
	if err != nil || c == nil {
		return
	}
	vnd.Assert((c.Server4 != nil) == has4 && (c.Server6 != nil) == has6, "C18 exactly the configured protocols")
	if has4 {
		a := c.Server4.Addresses
		if mode == 0 {
			vnd.Assert(len(a) == 1 && a[0].Port == 67 && a[0].IP == nil && a[0].Zone == "", "C18 DHCPv4 default listener is the wildcard on port 67")
		} else {
			vnd.Assert(len(a) == 1 && a[0].Zone == "eth0" && a[0].Port == 67, "C18 interface is an alias for listen %interface")
		}
	}
	if has6 {
		a := c.Server6.Addresses
		if mode == 0 {
			vnd.Assert(len(a) == 2 && a[0].Zone == "eth0" && a[0].Port == 547 && a[1].Port == 547 && a[1].Zone == "", "C18 DHCPv6 default listeners: ff02::1:2 on every multicast interface plus ff05::1:3")
		} else {
			vnd.Assert(len(a) == 1 && a[0].Zone == "eth0" && a[0].Port == 547, "C18 interface is an alias for listen %interface")
		}
	}
}

// VerifH_config_listen_free: every listen string of up to 3 arbitrary ASCII bytes:
// loading never panics and an accepted address has the protocol's family.
func VerifH_config_listen_free() {
	v6 := vnd.Pick("proto", 0, 1) == 1
	sec := "server4"
	if v6 {
		sec = "server6"
	}
	lb := vnd.Bytes("listen", vnd.Pick("len", 0, 3))
	for _, ch := range lb {
		vnd.Assume(ch < 0x80) // ASCII: range-over-string of symbolic multi-byte sequences is not supported by the engine
	}
	s := string(lb)
	tree = map[string]interface{}{sec: map[string]interface{}{}, sec + ".plugins": []interface{}{map[string]interface{}{"dns": "x"}}, sec + ".listen": s}
	ifaces = []net.Interface{{Index: 1, Name: "eth0", Flags: flagsOf(0)}}
	readErr = nil
	c, err := Load("config.yml")
	if err != nil {
		vnd.Cover("rejected")
		vnd.Assert(c == nil, "C18 an error comes without a configuration")
		return
	}
	vnd.Cover("accepted")
	sc := c.Server4
	if v6 {
		sc = c.Server6
	}
	vnd.Assert(sc != nil, "C18 an accepted configuration has its protocol section")
	if sc == nil {
		return
	}
	for _, a := range sc.Addresses {
		vnd.Assert(a.IP != nil && (a.IP.To4() != nil) == !v6, "C18 an accepted listen address has the protocol's family")
	}
}

// VerifH_config_port: an explicitly written port is taken as written (all
// one- and two-digit ports, digits symbolic), the default only when omitted.
func VerifH_config_port() {
	v6 := vnd.Pick("proto", 0, 1) == 1
	sec, host, def := "server4", "192.0.2.1", 67
	if v6 {
		sec, host, def = "server6", "[2001:db8::1]", 547
	}
	nd := vnd.Pick("digits", 0, 2)
	d := vnd.Bytes("port", nd)
	want := def
	str := host
	if nd > 0 {
		want = 0
		for _, c := range d {
			vnd.Assume(vnd.And(c >= '0', c <= '9'))
			want = want*10 + int(c-'0')
		}
		str = host + ":" + string(d)
	}
	tree = map[string]interface{}{sec: map[string]interface{}{}, sec + ".plugins": []interface{}{map[string]interface{}{"dns": "x"}}, sec + ".listen": str}
	ifaces = []net.Interface{}
	readErr = nil
	c, err := Load("config.yml")
	vnd.Cover("loaded")
	vnd.Assert(err == nil && c != nil, "C18 a numeric port loads")
	if err != nil || c == nil {
		return
	}
	sc := c.Server4
	if v6 {
		sc = c.Server6
	}
	vnd.Assert(sc != nil && len(sc.Addresses) == 1 && sc.Addresses[0].Port == want, "C18 an explicit port is taken as written, the default port only when omitted")
}
