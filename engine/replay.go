package main

import (
	"bytes"
	"context"
	"encoding/json"
	"fmt"
	"os"
	"os/exec"
	"path/filepath"
	"sort"
	"strings"
	"time"
)

type validation struct {
	Entry *EntryCfg
	Picks map[string]int
	Draws []drawRec
	Obs   []obsRec
}

const replayTestTmpl = `//go:build verif

package %s

import (
	"fmt"
	"os"
	"runtime/debug"
	"strings"
	"testing"

	"github.com/coredhcp/coredhcp/internal/vnd"
)

func TestVerifReplay(t *testing.T) {
	path := os.Getenv("VERIF_REPLAY")
	h, err := vnd.Load(path)
	if err != nil {
		fmt.Printf("VERIF-RESULT\tload-error: %%v\n", err)
		return
	}
	fns := map[string]func(){
%s	}
	fn := fns[h]
	if fn == nil {
		fmt.Printf("VERIF-RESULT\tno-such-harness: %%s\n", h)
		return
	}
	defer func() {
		for _, o := range vnd.Observations() {
			fmt.Printf("VERIF-OBS\t%%s\n", o)
		}
		if r := recover(); r != nil {
			if f, ok := r.(vnd.Failure); ok {
				fmt.Printf("VERIF-RESULT\t%%s:%%s\n", f.Kind, f.Label)
				return
			}
			st := strings.Split(string(debug.Stack()), "\n")
			where := ""
			for i, l := range st {
				if strings.Contains(l, "panic(") && i+3 < len(st) {
					where = strings.TrimSpace(st[i+3])
					break
				}
			}
			fmt.Printf("VERIF-RESULT\tpanic:%%v @ %%s\n", r, where)
			return
		}
		fmt.Printf("VERIF-RESULT\tok\n")
	}()
	fn()
}
`

type nativeBuild struct {
	bin string
	dir string
	err string
}

// buildNative compiles the replay test binary of one package through the overlay.
func buildNative(eng *Engine, work string, pkg string, entries []string) *nativeBuild {
	rel := relOf(pkg)
	name := eng.pkgNames[rel]
	if name == "" {
		return &nativeBuild{err: "unknown package " + pkg}
	}
	sort.Strings(entries)
	var sb strings.Builder
	for _, e := range entries {
		fmt.Fprintf(&sb, "\t\t%q: %s,\n", e, e)
	}
	testSrc := fmt.Sprintf(replayTestTmpl, name, sb.String())
	tag := strings.ReplaceAll(rel, "/", "_")
	testFile := filepath.Join(work, "replay_"+tag+"_test.go")
	os.WriteFile(testFile, []byte(testSrc), 0o644)
	ov := map[string]string{}
	for k, v := range eng.overlay {
		ov[k] = v
	}
	ov[filepath.Join(repoDir, rel, "zz_verif_replay_test.go")] = testFile
	tags := "verif"
	if src, dst, ok := clockOverlay(work); ok {
		ov[src] = dst
		tags = "verif,verifnative"
	}
	ob, _ := json.Marshal(map[string]interface{}{"Replace": ov})
	ovFile := filepath.Join(work, "overlay_"+tag+".json")
	os.WriteFile(ovFile, ob, 0o644)
	bin := filepath.Join(work, "replay_"+tag+".test")
	ctx, cancel := context.WithTimeout(context.Background(), 10*time.Minute)
	defer cancel()
	cmd := exec.CommandContext(ctx, "go", "test", "-c", "-tags", tags, "-overlay", ovFile, "-vet=off", "-o", bin, pkg)
	cmd.Dir = repoDir
	cmd.Env = goEnv()
	out, err := cmd.CombinedOutput()
	if err != nil {
		return &nativeBuild{err: fmt.Sprintf("native build failed: %v\n%s", err, tail(string(out), 2000))}
	}
	dir := filepath.Join(repoDir, rel)
	if fi, err := os.Stat(dir); err != nil || !fi.IsDir() {
		dir = repoDir // virtual (overlay-only) package
	}
	return &nativeBuild{bin: bin, dir: dir}
}

// clockOverlay writes a copy of the toolchain's time/time.go whose Now, Since and
// Until consult replay hooks (set by harness/vnd/clock_native.go), so that the
// clock readings of a solver model are replayed against the real build. The
// copy is regenerated from the installed source on every native build; if that
// source does not have the expected shape the replay runs on the real clock.
func clockOverlay(work string) (string, string, bool) {
	out, err := exec.Command("go", "env", "GOROOT").Output()
	if err != nil {
		return "", "", false
	}
	src := filepath.Join(strings.TrimSpace(string(out)), "src", "time", "time.go")
	b, err := os.ReadFile(src)
	if err != nil {
		return "", "", false
	}
	s := string(b)
	reps := [][2]string{
		{"func Now() Time {\n", "func Now() Time {\n\tif VerifClock != nil {\n\t\tif w, e, ok := VerifClock(); ok {\n\t\t\treturn Time{w, e, Local}\n\t\t}\n\t}\n"},
		{"subMono(runtimeNano()-startNano, t.ext)", "subMono(verifMono(), t.ext)"},
		{"subMono(t.ext, runtimeNano()-startNano)", "subMono(t.ext, verifMono())"},
	}
	for _, r := range reps {
		if strings.Count(s, r[0]) != 1 {
			return "", "", false
		}
		s = strings.Replace(s, r[0], r[1], 1)
	}
	s += `
// replay hooks (verification overlay only)
var VerifClock func() (wall uint64, ext int64, ok bool)
var VerifMono func() (int64, bool)

func verifMono() int64 {
	if VerifMono != nil {
		if m, ok := VerifMono(); ok {
			return m
		}
	}
	return runtimeNano() - startNano
}
`
	dst := filepath.Join(work, "time_go_overlay.txt")
	if os.WriteFile(dst, []byte(s), 0o644) != nil {
		return "", "", false
	}
	return src, dst, true
}

func tail(s string, n int) string {
	if len(s) > n {
		return s[len(s)-n:]
	}
	return s
}

// runNative runs one replay file; returns (result line, observations).
var nativeLabelPrefix string

func runNative(nb *nativeBuild, replayPath string) (string, []string) {
	ctx, cancel := context.WithTimeout(context.Background(), 60*time.Second)
	defer cancel()
	cmd := exec.CommandContext(ctx, nb.bin, "-test.run", "^TestVerifReplay$", "-test.count=1", "-test.timeout=50s")
	cmd.Dir = nb.dir
	cmd.Env = append(os.Environ(), "VERIF_REPLAY="+replayPath, "VERIF_LABEL_PREFIX="+nativeLabelPrefix)
	var buf bytes.Buffer
	cmd.Stdout = &buf
	cmd.Stderr = &buf
	err := cmd.Run()
	res := ""
	var obs []string
	for _, l := range strings.Split(buf.String(), "\n") {
		if strings.HasPrefix(l, "VERIF-RESULT\t") {
			res = strings.TrimPrefix(l, "VERIF-RESULT\t")
		}
		if strings.HasPrefix(l, "VERIF-OBS\t") {
			obs = append(obs, strings.TrimPrefix(l, "VERIF-OBS\t"))
		}
	}
	if res == "" {
		if ctx.Err() != nil {
			return "timeout (no result within 60s)", obs
		}
		out := buf.String()
		switch {
		case strings.Contains(out, "all goroutines are asleep") || strings.Contains(out, "test timed out"):
			return "deadlock", obs
		case strings.Contains(out, "fatal error:"):
			i := strings.Index(out, "fatal error:")
			return "fatal:" + strings.SplitN(out[i:], "\n", 2)[0], obs
		}
		return fmt.Sprintf("process-exit (%v): %s", err, tail(strings.TrimSpace(out), 300)), obs
	}
	return res, obs
}

func workDir() string {
	d := filepath.Join(outDir(), ".work", fmt.Sprintf("%d", os.Getpid()))
	os.MkdirAll(d, 0o755)
	return d
}

func classifyNative(v *violation, res string) string {
	switch v.Kind {
	case "assert-violated":
		if res == "assert:"+v.Label {
			return "reproduced: native run fails the same assertion"
		}
		if strings.HasPrefix(res, "assert:"+strings.SplitN(v.Label, " ", 2)[0]+" ") {
			return "reproduced: native run fails an assertion of the same property (" + res + ")"
		}
	case "panic":
		if strings.HasPrefix(res, "panic:") {
			return "reproduced: native run panics (" + strings.TrimPrefix(res, "panic:") + ")"
		}
	case "exit":
		if strings.HasPrefix(res, "process-exit") || strings.HasPrefix(res, "fatal:") {
			return "reproduced: native process terminated (" + res + ")"
		}
	case "self-deadlock":
		if strings.Contains(v.Msg, "recursive RLock") {
			return "not-replayable (a recursive read lock only blocks when a writer arrives between the two RLock calls; decided by the mutex model)"
		}
		if res == "deadlock" || strings.HasPrefix(res, "timeout") {
			return "reproduced: native run blocks forever (" + res + ")"
		}
	case "lock-leak":
		return "not-replayable (a held lock is not observable natively; decided by the mutex model)"
	}
	return "not reproduced: native outcome " + res
}

func nativeReplay(eng *Engine, viols []*violation, entries map[string]*EntryCfg) {
	if len(viols) == 0 {
		return
	}
	work := workDir()
	defer os.RemoveAll(work)
	byPkg := map[string][]*violation{}
	for _, v := range viols {
		p := entries[v.Entry].Pkg
		byPkg[p] = append(byPkg[p], v)
	}
	for pkg, vs := range byPkg {
		var names []string
		for n, e := range entries {
			if e.Pkg == pkg {
				names = append(names, n)
			}
		}
		nb := buildNative(eng, work, pkg, names)
		for _, v := range vs {
			if nb.err != "" {
				v.Native = "not reproduced: " + nb.err
				continue
			}
			res, _ := runNative(nb, v.Replay)
			v.Native = classifyNative(v, res)
		}
	}
}

// validatePaths pushes solver-chosen inputs of non-violating paths through the
// real build and compares the observed values with the engine's prediction.
func validatePaths(eng *Engine, vals []*validation, property string) (int, []string) {
	if len(vals) == 0 {
		return 0, nil
	}
	work := workDir()
	defer os.RemoveAll(work)
	byPkg := map[string][]*validation{}
	for _, v := range vals {
		byPkg[v.Entry.Pkg] = append(byPkg[v.Entry.Pkg], v)
	}
	n := 0
	var mism []string
	for pkg, vs := range byPkg {
		seen := map[string]bool{}
		var names []string
		for _, v := range vs {
			if !seen[v.Entry.Entry] {
				seen[v.Entry.Entry] = true
				names = append(names, v.Entry.Entry)
			}
		}
		nb := buildNative(eng, work, pkg, names)
		if nb.err != "" {
			mism = append(mism, pkg+": "+nb.err)
			continue
		}
		for i, v := range vs {
			rf := map[string]interface{}{"harness": v.Entry.Entry, "picks": v.Picks, "draws": v.Draws}
			b, _ := json.Marshal(rf)
			p := filepath.Join(work, fmt.Sprintf("val-%s-%d.json", strings.ReplaceAll(relOf(pkg), "/", "_"), i))
			os.WriteFile(p, b, 0o644)
			res, obs := runNative(nb, p)
			if res != "ok" {
				mism = append(mism, fmt.Sprintf("%s picks=%s: engine path ends ok, native run: %s", v.Entry.Entry, picksString(v.Picks), res))
				keep := filepath.Join(outDir(), "replays", property)
				os.MkdirAll(keep, 0o755)
				os.WriteFile(filepath.Join(keep, fmt.Sprintf("mismatch-%s-%d.json", v.Entry.Entry, i)), b, 0o644)
				continue
			}
			var want []string
			for _, o := range v.Obs {
				want = append(want, o.Label+"="+strings.Join(o.Vals, ","))
			}
			if strings.Join(want, "\n") != strings.Join(obs, "\n") {
				mism = append(mism, fmt.Sprintf("%s picks=%s: observations differ: engine %v native %v", v.Entry.Entry, picksString(v.Picks), want, obs))
				keep := filepath.Join(outDir(), "replays", property)
				os.MkdirAll(keep, 0o755)
				os.WriteFile(filepath.Join(keep, fmt.Sprintf("mismatch-%s-%d.json", v.Entry.Entry, i)), b, 0o644)
				continue
			}
			n++
		}
	}
	return n, mism
}

// cmdReplay re-runs one replay file natively.
func cmdReplay(args []string) int {
	if len(args) < 1 {
		fmt.Println("usage: gosymex replay <file>")
		return 2
	}
	b, err := os.ReadFile(args[0])
	if err != nil {
		fmt.Println(err)
		return 2
	}
	var rf struct {
		Harness  string            `json:"harness"`
		Package  string            `json:"package"`
		Property string            `json:"property"`
		Expect   map[string]string `json:"expect"`
	}
	if err := json.Unmarshal(b, &rf); err != nil {
		fmt.Println(err)
		return 2
	}
	cfg, _, err := loadConfig()
	if err != nil {
		fmt.Println(err)
		return 2
	}
	var ent *EntryCfg
	for _, id := range sortedChecks(cfg) {
		for _, e := range cfg.entriesOf(id) {
			if e.Entry == rf.Harness {
				ec := e
				ent = &ec
			}
		}
	}
	if ent == nil {
		fmt.Println("harness not found in checks.json:", rf.Harness)
		return 2
	}
	hd := map[string]string{relOf(ent.Pkg): ent.Harness}
	for k, v := range ent.Overlays {
		hd[k] = v
	}
	ov, err := harnessOverlay(verifDir(), hd)
	if err != nil {
		fmt.Println(err)
		return 2
	}
	eng, err := loadEngine([]string{ent.Pkg}, ov)
	if err != nil {
		fmt.Println("HARNESS-BUILD-FAILURE", err)
		return 2
	}
	work := workDir()
	defer os.RemoveAll(work)
	nb := buildNative(eng, work, ent.Pkg, []string{ent.Entry})
	if nb.err != "" {
		fmt.Println(nb.err)
		return 2
	}
	abs, _ := filepath.Abs(args[0])
	nativeLabelPrefix = rf.Property
	res, obs := runNative(nb, abs)
	fmt.Printf("native outcome: %s\n", res)
	for _, o := range obs {
		fmt.Println("  observed", o)
	}
	fmt.Printf("expected: %v\n", rf.Expect)
	v := &violation{Kind: rf.Expect["kind"], Label: rf.Expect["label"]}
	cl := classifyNative(v, res)
	fmt.Println(cl)
	if strings.HasPrefix(cl, "reproduced") {
		return 1
	}
	return 0
}

func sortedChecks(cfg *Config) []string {
	var ids []string
	for id := range cfg.Checks {
		ids = append(ids, id)
	}
	sort.Strings(ids)
	return ids
}
