//go:build verif

package leasetime

import (
	"time"

	"github.com/coredhcp/coredhcp/internal/vh"
	"github.com/coredhcp/coredhcp/internal/vnd"
	"github.com/insomniacslk/dhcp/dhcpv4"
)

var leaseCases = []time.Duration{time.Second, 90 * time.Second, time.Hour, time.Hour + 400*time.Millisecond, 12 * time.Hour, 0}

func VerifH_leasetime4() {
	v4LeaseTime = leaseCases[vnd.Pick("lease", 0, len(leaseCases)-1)]
	secs := uint32(v4LeaseTime / time.Second)
	req := vh.Req4()
	vh.PRL(req)
	resp, ec, ev := vh.Resp4(req, uint8(dhcpv4.OptionIPAddressLeaseTime))
	var old []byte
	if vnd.Pick("already", 0, 1) == 1 {
		old = vnd.Bytes("oldlease", 4)
		resp.Options[uint8(dhcpv4.OptionIPAddressLeaseTime)] = append([]byte(nil), old...)
	}
	n0 := len(resp.Options)

	r, stop := Handler4(req, resp)

	vnd.Assert(r != nil || stop, "C13 a built-in handler returns a nil response only together with stop")
	vnd.Assert(r == resp && !stop, "C17 leasetime passes the response on")
	got, present := resp.Options[uint8(dhcpv4.OptionIPAddressLeaseTime)]
	if old != nil {
		vnd.Cover("already-set")
		vnd.Assert(present && vh.BytesAre(got, old), "C17 leasetime never overwrites a lease time that is already set")
		vnd.Assert(vh.Untouched4(resp, req, ec, ev, n0), "C17 leasetime leaves everything else untouched")
	} else {
		vnd.Cover("default")
		want := []byte{byte(secs >> 24), byte(secs >> 16), byte(secs >> 8), byte(secs)}
		vnd.Assert(present && vh.BytesAre(got, want), "C17 leasetime sets the configured default lease time when none is set")
		vnd.Assert(vh.Untouched4(resp, req, ec, ev, n0+1), "C17 leasetime leaves everything else untouched")
	}
	vnd.Observe("lease", got)
}
