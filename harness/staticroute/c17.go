//go:build verif

package staticroute

import (
	"net"

	"github.com/coredhcp/coredhcp/internal/vh"
	"github.com/coredhcp/coredhcp/internal/vnd"
	"github.com/insomniacslk/dhcp/dhcpv4"
)

// anyRoutes sets routes to 1..2 IPv4 routes as setup4 builds them from
// net.ParseCIDR (4-byte network and mask) and net.ParseIP (16-byte v4-mapped
// gateway); want is the RFC 3442 encoding.
func anyRoutes() (want []byte) {
	n := vnd.Pick("nroutes", 1, 2)
	routes = make(dhcpv4.Routes, 0)
	for i := 0; i < n; i++ {
		plen := vnd.Pick("plen", 0, 32)
		d := vnd.Bytes("dest", 4)
		mask := net.CIDRMask(plen, 32)
		for j := range d {
			vnd.Assume(d[j]&^mask[j] == 0) // ParseCIDR returns the masked network
		}
		g := vnd.Bytes("gw", 4)
		routes = append(routes, &dhcpv4.Route{Dest: &net.IPNet{IP: net.IP(d), Mask: mask}, Router: net.IPv4(g[0], g[1], g[2], g[3])})
		want = append(want, byte(plen))
		want = append(want, d[:(plen+7)/8]...)
		want = append(want, g...)
	}
	return
}

func VerifH_staticroute4() {
	want := anyRoutes()
	req := vh.Req4()
	vh.PRL(req)
	resp, ec, ev := vh.Resp4(req, uint8(dhcpv4.OptionClasslessStaticRoute))
	n0 := len(resp.Options)

	r, stop := Handler4(req, resp)

	vnd.Assert(r != nil || stop, "C13 a built-in handler returns a nil response only together with stop")
	vnd.Assert(r != nil || stop, "C01 no handler passes a nil response on to its successors (they would dereference it)")
	vnd.Cover("emitted")
	vnd.Assert(r == resp && !stop, "C17 staticroute passes the response on")
	got, present := resp.Options[uint8(dhcpv4.OptionClasslessStaticRoute)]
	vnd.Assert(present && vh.BytesAre(got, want), "C17 staticroute emits the configured routes in RFC 3442 encoding, unconditionally")
	vnd.Assert(vh.Untouched4(resp, req, ec, ev, n0+1), "C17 staticroute leaves everything else untouched")
	vnd.Observe("routes", got)
}
