package main

import (
	"fmt"
	"go/constant"
	"go/token"
	"go/types"
	"math/big"
	"runtime"
	"strings"

	"golang.org/x/tools/go/ssa"
)

type forkReq struct {
	conds []*Term
	apply []func(*State)
	why   string
}
type endPath struct {
	kind  string
	msg   string
	label string
	pos   token.Pos
}
type contReq struct{} // re-enter the step loop (used by panic unwinding)

// PathResult is what one explored path (or one violated assertion on it) leaves behind.
type PathResult struct {
	Kind    string
	Label   string
	Msg     string
	Pos     string
	Fn      string
	Model   map[string]*big.Int
	Draws   []drawRec
	Picks   map[string]int
	Covers  map[string]bool
	Obs     []obsRec
	Finding string
	Asserts int
	Acc     []access
	CSect   int
	Second  string // second-solver verdict on the deciding query, if asked
	EngineOnly bool // assertion about an engine model (locks, heap graph): no native counterpart
}

type drawRec struct {
	Label string   `json:"label"`
	Kind  string   `json:"kind"`
	Vals  []string `json:"vals"` // hex
}
type obsRec struct {
	Label string   `json:"label"`
	Vals  []string `json:"vals"`
}

type Interp struct {
	eng      *Engine
	prog     *ssa.Program
	tf       *TermFactory
	sol      *Solver
	regIdx   map[*ssa.Function]map[ssa.Value]int
	intrC    map[*ssa.Function]intrinsicFn
	results  []PathResult
	unwind   int
	presets  map[string]int
	nInstr   int
	funcs    map[*ssa.Function]bool
	nvar     int
	maxConcr int
	gaveUp   bool // the task was abandoned after too many solver timeouts
	verbose  bool
	stubs    map[string]*ssa.Function
	sampleOK int // how many ok paths get a model for validation
	okSeen   int
	nForks   int
	second   string // second solver binary for verdict queries ("" = none)
	forkSites map[string]int
	slowMs   int
	labelPrefix string
	skippedAsserts int
	assertQueries  int
	collected [][]*State
	nMerged  int
	stepCap  int
	opts     map[string]bool
}

func (in *Interp) regs(fn *ssa.Function) map[ssa.Value]int {
	if m, ok := in.regIdx[fn]; ok {
		return m
	}
	m := map[ssa.Value]int{}
	n := 0
	for _, p := range fn.Params {
		m[p] = n
		n++
	}
	for _, fv := range fn.FreeVars {
		m[fv] = n
		n++
	}
	for _, b := range fn.Blocks {
		for _, ins := range b.Instrs {
			if v, ok := ins.(ssa.Value); ok {
				m[v] = n
				n++
			}
		}
	}
	in.regIdx[fn] = m
	return m
}

func (in *Interp) fresh(label string, w int) *Term {
	in.nvar++
	name := fmt.Sprintf("v%d_%s", in.nvar, sanitize(label))
	return in.tf.Var(name, w)
}

func sanitize(s string) string {
	var sb strings.Builder
	for _, r := range s {
		if (r >= 'a' && r <= 'z') || (r >= 'A' && r <= 'Z') || (r >= '0' && r <= '9') || r == '_' {
			sb.WriteRune(r)
		} else {
			sb.WriteByte('_')
		}
	}
	return sb.String()
}

// ---------- decisions ----------

func (in *Interp) decide(st *State, c *Term) bool {
	if c.IsTrue() {
		return true
	}
	if c.IsFalse() {
		return false
	}
	if c.Op == "not" {
		return !in.decide(st, c.Args[0])
	}
	if v, ok := st.known[c.id]; ok {
		return v
	}
	nc := in.tf.LNot(c)
	panic(forkReq{conds: []*Term{c, nc}, apply: []func(*State){
		func(s *State) { s.known[c.id] = true },
		func(s *State) { s.known[c.id] = false },
	}, why: "branch"})
}

func (in *Interp) termOf(v Value, what string) *Term {
	t, ok := v.(*Term)
	if !ok {
		if p, isP := v.(Poison); isP {
			panic(endPath{kind: "unsupported", msg: what + ": poison value: " + p.Why})
		}
		panic(endPath{kind: "unsupported", msg: fmt.Sprintf("%s: expected scalar, got %T", what, v)})
	}
	return t
}

// concretize returns a concrete int for t, forking over feasible values if needed.
func (in *Interp) concretize(st *State, t *Term, why string) int64 {
	if t.IsConst() {
		return signed(t.W, t.C).Int64()
	}
	if v, ok := st.concr[t.id]; ok {
		return signed(t.W, v).Int64()
	}
	var vals []*big.Int
	in.sol.Push()
	in.sol.Assert(in.tf.Cmp("=", t, t))
	for len(vals) <= in.maxConcr {
		if in.sol.Check() != "sat" {
			break
		}
		in.sol.declVars(t, map[int]bool{})
		m := in.sol.Model(varsOf(t))
		v := evalTerm(t, m)
		vals = append(vals, v)
		in.sol.Assert(in.tf.LNot(in.tf.Cmp("=", t, in.tf.Const(t.W, v))))
	}
	in.sol.Pop()
	if len(vals) > in.maxConcr {
		panic(endPath{kind: "concretise-cap", msg: why})
	}
	if len(vals) == 0 {
		panic(endPath{kind: "infeasible", msg: "concretize: no value " + why})
	}
	if len(vals) == 1 {
		st.concr[t.id] = vals[0]
		return signed(t.W, vals[0]).Int64()
	}
	fr := forkReq{why: "concretize " + why}
	for _, v := range vals {
		v := v
		fr.conds = append(fr.conds, in.tf.Cmp("=", t, in.tf.Const(t.W, v)))
		fr.apply = append(fr.apply, func(s *State) { s.concr[t.id] = v })
	}
	panic(fr)
}

func varsOf(t *Term) []*Term {
	seen := map[int]bool{}
	var out []*Term
	var rec func(*Term)
	rec = func(x *Term) {
		if seen[x.id] {
			return
		}
		seen[x.id] = true
		if x.Op == "var" {
			out = append(out, x)
		}
		for _, a := range x.Args {
			rec(a)
		}
	}
	rec(t)
	return out
}

// evalTerm evaluates t under a model (missing vars = 0).
func evalTerm(t *Term, m map[string]*big.Int) *big.Int {
	tf := NewTF()
	cache := map[int]*Term{}
	var rec func(*Term) *Term
	rec = func(x *Term) *Term {
		if r, ok := cache[x.id]; ok {
			return r
		}
		var r *Term
		switch x.Op {
		case "const":
			r = tf.Const(x.W, x.C)
		case "true":
			r = tf.True()
		case "false":
			r = tf.False()
		case "var":
			v := m[x.Name]
			if v == nil {
				v = new(big.Int)
			}
			if x.W == 0 {
				r = tf.Bool(v.Sign() != 0)
			} else {
				r = tf.Const(x.W, v)
			}
		default:
			args := make([]*Term, len(x.Args))
			for i, a := range x.Args {
				args[i] = rec(a)
			}
			switch x.Op {
			case "extract":
				r = tf.Extract(x.I, x.J, args[0])
			case "zext":
				r = tf.ZExt(x.W, args[0])
			case "sext":
				r = tf.SExt(x.W, args[0])
			case "concat":
				r = tf.Concat(args[0], args[1])
			case "bvnot":
				r = tf.Not(args[0])
			case "not":
				r = tf.LNot(args[0])
			case "and":
				r = tf.LAnd(args[0], args[1])
			case "or":
				r = tf.LOr(args[0], args[1])
			case "ite":
				r = tf.Ite(args[0], args[1], args[2])
			case "tbl":
				r = tf.TableSel(x.Tbl, x.W, args[0])
			case "=", "bvult", "bvule", "bvslt", "bvsle":
				r = tf.Cmp(x.Op, args[0], args[1])
			default:
				r = tf.Bin(x.Op, args[0], args[1])
			}
		}
		cache[x.id] = r
		return r
	}
	r := rec(t)
	switch r.Op {
	case "const":
		return r.C
	case "true":
		return big.NewInt(1)
	case "false":
		return big.NewInt(0)
	}
	panic("evalTerm: not ground: " + r.Op)
}

// ---------- exploration ----------

// Explore runs st depth-first. When stop > 0 the exploration of a path ends as
// soon as its stack is no deeper than stop (the callee being summarised has
// returned) and the state is handed to the innermost collector.
//
// State merging at function returns: at a genuine fork the outermost frame
// pushed since the previous fork is taken as the unit to summarise. Its
// sub-paths are explored to their return; those that were pure (no write to
// memory older than the frame, no draws/locks/observations) and return values
// of the same shape are merged back into ONE state whose return value is an
// ite over the sub-path conditions. Byte-compare loops in library code
// (net.IP.To4, IPNet.Contains, bytes.Equal ...) then cost one path, not one
// per byte. Impure or differently shaped sub-paths simply continue on their own.
// maxUnknown: after this many solver timeouts a task is abandoned (reported
// inconclusive) instead of paying the timeout again on every later query.
const maxUnknown = 6

func (in *Interp) Explore(st *State, stop int) {
	for {
		if in.sol.Unknown >= maxUnknown {
			if !in.gaveUp {
				in.gaveUp = true
				in.record(st, &endPath{kind: "solver-unknown", msg: fmt.Sprintf("task abandoned after %d solver timeouts", in.sol.Unknown)})
			}
			return
		}
		fr, end, stopped := in.runUntilFork(st, stop)
		if stopped {
			n := len(in.collected) - 1
			in.collected[n] = append(in.collected[n], st)
			return
		}
		if end != nil {
			in.record(st, end)
			return
		}
		// which children are feasible?
		var feas []int
		unknown := false
		for i, c := range fr.conds {
			last := i == len(fr.conds)-1
			var res string
			if c.IsTrue() {
				res = "sat"
			} else if last && len(feas) == 0 && !unknown {
				res = "sat" // pc is sat and all other sides were not
			} else {
				res = in.sol.CheckWith(c)
				if in.slowMs > 0 && in.sol.LastQuery.Milliseconds() > int64(in.slowMs) {
					fmt.Printf("SLOWQ %dms fork %s in %s -> %s\n", in.sol.LastQuery.Milliseconds(), fr.why, st.top().fn.String(), res)
				}
			}
			if res == "unsat" {
				continue
			}
			if res == "unknown" {
				unknown = true
				in.record(st, &endPath{kind: "solver-unknown", msg: fr.why})
				continue
			}
			feas = append(feas, i)
		}
		if len(feas) == 0 {
			if !unknown {
				in.record(st, &endPath{kind: "infeasible", msg: "no feasible child: " + fr.why})
			}
			return
		}
		if len(feas) == 1 && !unknown {
			fr.apply[feas[0]](st)
			continue
		}
		in.nForks++
		if in.forkSites != nil {
			f := st.top()
			in.forkSites[fmt.Sprintf("%s b%d (%s) k=%d", f.fn.String(), f.block.Index, fr.why, len(feas))]++
			if in.nForks%500 == 0 {
				fmt.Printf("PROGRESS %d paths, %d forks, %d merged, stack %s\n", len(in.results), in.nForks, in.nMerged, in.stackString(st))
				for k, v := range in.forkSites {
					if v > 40 {
						fmt.Printf("   FORKSITE %6d %s\n", v, k)
					}
				}
			}
		}
		// candidate frame for summarisation: the outermost one pushed since the last fork
		k := -1
		if !in.opts["nomerge"] && st.panicking == nil {
			now := st.effects()
			for i := stop + 1; i < len(st.stack); i++ {
				f := st.stack[i]
				if f.goRoot {
					break // frames of a running goroutine can be dropped by park: not a unit to summarise
				}
				if i >= 1 && !f.dirty && f.fx == now && !st.stack[0].initCall {
					k = i
					break
				}
			}
		}
		forkChildren := func(stopAt int) {
			for _, i := range feas {
				c := fr.conds[i]
				child := st.clone()
				child.pc = append(child.pc, c)
				child.nforks++
				fr.apply[i](child)
				in.sol.Push()
				if !c.IsTrue() {
					in.sol.Assert(c)
				}
				in.Explore(child, stopAt)
				in.sol.Pop()
			}
		}
		if k < 0 {
			forkChildren(stop)
			return
		}
		tmpl := st.clone()
		tmpl.stack = tmpl.stack[:k]
		retTo := st.stack[k].retTo
		heapBase := st.stack[k].heapBase
		fx := st.stack[k].fx
		pcLen := len(st.pc)
		in.collected = append(in.collected, nil)
		forkChildren(k)
		kids := in.collected[len(in.collected)-1]
		in.collected = in.collected[:len(in.collected)-1]
		in.continueMerged(tmpl, kids, retTo, heapBase, fx, pcLen, k, stop)
		return
	}
}

type mergeGroup struct {
	key     string
	members []*State
	vals    []Value
	conds   []*Term
}

func (in *Interp) continueMerged(tmpl *State, kids []*State, retTo ssa.Value, heapBase int, fx fxCount, pcLen, k, stop int) {
	tf := in.tf
	var groups []*mergeGroup
	byKey := map[string]*mergeGroup{}
	for idx, ch := range kids {
		cond := tf.True()
		for _, c := range ch.pc[pcLen:] {
			cond = tf.LAnd(cond, c)
		}
		var rv Value
		key := ""
		pure := !ch.retDirty && ch.effects() == fx && len(ch.stack) == k && ch.panicking == nil
		if pure && retTo != nil {
			caller := ch.stack[k-1]
			rv = caller.regs[in.regs(caller.fn)[retTo]]
			var ok bool
			key, ok = in.shapeKey(rv, heapBase)
			if !ok {
				pure = false
			}
		}
		if !pure {
			key = fmt.Sprintf("#single%d", idx)
		}
		g := byKey[key]
		if g == nil {
			g = &mergeGroup{key: key}
			byKey[key] = g
			groups = append(groups, g)
		}
		g.members = append(g.members, ch)
		g.vals = append(g.vals, rv)
		g.conds = append(g.conds, cond)
	}
	for _, g := range groups {
		in.sol.Push()
		var ns *State
		if len(g.members) == 1 {
			ns = g.members[0]
			for _, c := range ns.pc[pcLen:] {
				if !c.IsTrue() {
					in.sol.Assert(c)
				}
			}
		} else {
			in.nMerged += len(g.members) - 1
			ns = tmpl.clone()
			disj := tf.False()
			for _, c := range g.conds {
				disj = tf.LOr(disj, c)
			}
			ns.pc = append(ns.pc, disj)
			ns.nforks++
			// keep the shared-access records of every merged sub-path
			base := len(tmpl.accesses)
			for _, m := range g.members {
				for _, a := range m.accesses[min(base, len(m.accesses)):] {
					dup := false
					for _, b := range ns.accesses[base:] {
						if a.Cell == b.Cell && a.Write == b.Write && a.Held == b.Held && a.Fn == b.Fn {
							dup = true
							break
						}
					}
					if !dup {
						ns.accesses = append(ns.accesses, a)
					}
				}
			}
			in.sol.Assert(disj)
			if retTo != nil {
				mv := in.mergeVals(g.vals, g.conds)
				caller := ns.stack[k-1]
				in.setReg(caller, retTo, mv)
			}
		}
		in.Explore(ns, stop)
		in.sol.Pop()
	}
}

// shapeKey describes the structure of a value with scalars abstracted to
// their width; ok is false when the value refers to memory allocated inside
// the callee (such values cannot be merged across sub-paths).
func (in *Interp) shapeKey(v Value, heapBase int) (string, bool) {
	switch x := v.(type) {
	case nil:
		return "nil", true
	case *Term:
		return fmt.Sprintf("T%d", x.W), true
	case Ptr:
		if x.Obj >= heapBase || x.Sym != nil {
			return "", false
		}
		return "P" + pathKey(x.Obj, x.Path), true
	case Slice:
		if x.Obj >= heapBase {
			return "", false
		}
		return fmt.Sprintf("S%s,%d,%d,%d,%v,%v", pathKey(x.Obj, x.Path), x.Off, x.Len, x.Cap, x.Nil, x.Str), true
	case MapRef:
		if x.Obj >= heapBase {
			return "", false
		}
		return fmt.Sprintf("M%d,%v", x.Obj, x.Nil), true
	case Tuple:
		return in.shapeKeys("U", x.E, heapBase)
	case Struct:
		return in.shapeKeys("R", x.F, heapBase)
	case Array:
		return in.shapeKeys("A", x.E, heapBase)
	case Iface:
		if x.T == nil {
			return "I-nil", true
		}
		k, ok := in.shapeKey(x.V, heapBase)
		return "I(" + x.T.String() + ")" + k, ok
	case Closure:
		if x.Nil {
			return "F-nil", true
		}
		if len(x.Env) == 0 {
			return "F" + x.Fn.String(), true
		}
	}
	return "", false
}

func (in *Interp) shapeKeys(tag string, vs []Value, heapBase int) (string, bool) {
	var sb strings.Builder
	sb.WriteString(tag + "[")
	for _, e := range vs {
		k, ok := in.shapeKey(e, heapBase)
		if !ok {
			return "", false
		}
		sb.WriteString(k + ";")
	}
	sb.WriteString("]")
	return sb.String(), true
}

// mergeVals builds ite(c0, v0, ite(c1, v1, ... v_last)) for values of one shape.
func (in *Interp) mergeVals(vals []Value, conds []*Term) Value {
	switch x := vals[0].(type) {
	case *Term:
		r := vals[len(vals)-1].(*Term)
		for i := len(vals) - 2; i >= 0; i-- {
			r = in.tf.Ite(conds[i], vals[i].(*Term), r)
		}
		return r
	case Tuple:
		e := make([]Value, len(x.E))
		for j := range e {
			col := make([]Value, len(vals))
			for i := range vals {
				col[i] = vals[i].(Tuple).E[j]
			}
			e[j] = in.mergeVals(col, conds)
		}
		return Tuple{E: e}
	case Struct:
		e := make([]Value, len(x.F))
		for j := range e {
			col := make([]Value, len(vals))
			for i := range vals {
				col[i] = vals[i].(Struct).F[j]
			}
			e[j] = in.mergeVals(col, conds)
		}
		return Struct{F: e}
	case Array:
		e := make([]Value, len(x.E))
		for j := range e {
			col := make([]Value, len(vals))
			for i := range vals {
				col[i] = vals[i].(Array).E[j]
			}
			e[j] = in.mergeVals(col, conds)
		}
		return Array{E: e}
	case Iface:
		if x.T == nil {
			return x
		}
		col := make([]Value, len(vals))
		for i := range vals {
			col[i] = vals[i].(Iface).V
		}
		return Iface{T: x.T, V: in.mergeVals(col, conds)}
	}
	return vals[0] // identical by shape key (pointers, slices, maps, closures, nil)
}

func (in *Interp) runUntilFork(st *State, stop int) (fr *forkReq, end *endPath, stopped bool) {
	for {
		fr, end, cont, stopped := in.runSome(st, stop)
		if cont {
			continue
		}
		return fr, end, stopped
	}
}

func (in *Interp) runSome(st *State, stop int) (fr *forkReq, end *endPath, cont bool, stopped bool) {
	defer func() {
		if r := recover(); r != nil {
			switch x := r.(type) {
			case forkReq:
				fr = &x
			case endPath:
				end = &x
			case contReq:
				cont = true
			default:
				panic(r)
			}
		}
	}()
	if stop > 0 {
		for {
			if len(st.stack) <= stop {
				return nil, nil, false, true
			}
			in.step(st)
		}
	}
	for {
		in.step(st)
	}
}

func (in *Interp) stackString(st *State) string {
	var names []string
	for _, fr := range st.stack {
		names = append(names, fr.fn.Name())
	}
	return strings.Join(names, " > ")
}

func (in *Interp) drawVars(st *State) []*Term {
	var vs []*Term
	for _, d := range st.draws {
		for _, t := range d.Terms {
			vs = append(vs, varsOf(t)...)
		}
	}
	return vs
}

func hexOf(v *big.Int) string { return v.Text(16) }

func (in *Interp) concreteDraws(st *State, m map[string]*big.Int) []drawRec {
	out := make([]drawRec, 0, len(st.draws))
	for _, d := range st.draws {
		r := drawRec{Label: d.Label, Kind: d.Kind}
		for _, t := range d.Terms {
			r.Vals = append(r.Vals, hexOf(evalTerm(t, m)))
		}
		out = append(out, r)
	}
	return out
}

func (in *Interp) record(st *State, e *endPath) {
	pr := PathResult{Kind: e.kind, Label: e.label, Msg: e.msg, Picks: st.picks, Covers: st.covers, Asserts: st.asserts, Acc: st.accesses, CSect: st.csections}
	if e.kind != "ok" && e.kind != "infeasible" {
		pr.Msg += " [stack: " + in.stackString(st) + "]"
		if len(st.stack) > 0 {
			pr.Fn = st.top().fn.String()
		}
	}
	if e.pos.IsValid() {
		pr.Pos = in.prog.Fset.Position(e.pos).String()
	}
	wantModel := e.kind != "infeasible" && e.kind != "ok"
	if e.kind == "ok" {
		in.okSeen++
		if in.okSeen <= in.sampleOK {
			wantModel = true
		}
	}
	if wantModel {
		if in.sol.Check() == "sat" {
			vs := in.drawVars(st)
			for _, o := range st.obs {
				for _, v := range o.Vals {
					if t, ok := v.(*Term); ok {
						vs = append(vs, varsOf(t)...)
					}
				}
			}
			pr.Model = in.sol.Model(vs)
			pr.Draws = in.concreteDraws(st, pr.Model)
			for _, o := range st.obs {
				or := obsRec{Label: o.Label}
				for _, v := range o.Vals {
					or.Vals = append(or.Vals, in.renderObs(st, v, pr.Model))
				}
				pr.Obs = append(pr.Obs, or)
			}
		}
	}
	in.results = append(in.results, pr)
	if in.forkSites != nil && len(in.results)%200 == 0 {
		fmt.Printf("PROGRESS %d paths, %d forks, %d merged\n", len(in.results), in.nForks, in.nMerged)
		for k, v := range in.forkSites {
			if v > 50 {
				fmt.Printf("   FORKSITE %6d %s\n", v, k)
			}
		}
	}
}

// renderObs renders an observed value under a model the same way vnd.Observe
// does natively.
func (in *Interp) renderObs(st *State, v Value, m map[string]*big.Int) string {
	switch x := v.(type) {
	case *Term:
		if x.W == 0 {
			if evalTerm(x, m).Sign() != 0 {
				return "true"
			}
			return "false"
		}
		return evalTerm(x, m).Text(16)
	case Slice:
		if x.Obj < 0 || x.Len == 0 {
			if x.Nil {
				return "nil"
			}
			return "[]"
		}
		var sb strings.Builder
		sb.WriteString("[")
		a := st.arr(x)
		for i := 0; i < x.Len; i++ {
			if t, ok := a.E[x.Off+i].(*Term); ok {
				fmt.Fprintf(&sb, "%02x", evalTerm(t, m).Uint64())
			} else {
				sb.WriteString("??")
			}
		}
		sb.WriteString("]")
		return sb.String()
	case Iface:
		if x.T == nil {
			return "nil"
		}
		return in.renderObs(st, x.V, m)
	case Ptr:
		if x.IsNil() {
			return "nil"
		}
		return "ptr"
	}
	return fmt.Sprintf("%T", v)
}

// ---------- evaluation of operands ----------

func (in *Interp) constVal(st *State, c *ssa.Const) Value {
	t := c.Type()
	if c.Value == nil {
		return in.zero(t)
	}
	if w, _, ok := intWidth(t); ok {
		cv := constant.ToInt(c.Value)
		if i, exact := constant.Int64Val(cv); exact {
			return in.tf.ConstI(w, i)
		}
		if u, exact := constant.Uint64Val(cv); exact {
			return in.tf.ConstU(w, u)
		}
		return Poison{"big const"}
	}
	if isBool(t) {
		return in.tf.Bool(constant.BoolVal(c.Value))
	}
	if isString(t) {
		return in.strConst(st, constant.StringVal(c.Value))
	}
	return Poison{"const of " + t.String()}
}

func (in *Interp) strConst(st *State, s string) Value {
	if len(s) == 0 {
		return Slice{Obj: -1, Str: true}
	}
	if id, ok := st.strs[s]; ok {
		return Slice{Obj: id, Len: len(s), Cap: len(s), Str: true}
	}
	e := make([]Value, len(s))
	for i := 0; i < len(s); i++ {
		e[i] = in.tf.ConstU(8, uint64(s[i]))
	}
	id := st.alloc(Array{E: e}, "str")
	st.strs[s] = id
	return Slice{Obj: id, Len: len(s), Cap: len(s), Str: true}
}

func (in *Interp) eval(st *State, f *Frame, v ssa.Value) Value {
	switch x := v.(type) {
	case *ssa.Const:
		return in.constVal(st, x)
	case *ssa.Global:
		return in.globalPtr(st, x)
	case *ssa.Function:
		return Closure{Fn: x}
	case *ssa.Builtin:
		return BuiltinFn{Name: x.Name()}
	}
	idx, ok := in.regs(f.fn)[v]
	if !ok {
		panic(fmt.Sprintf("no reg for %s in %s", v.Name(), f.fn))
	}
	r := f.regs[idx]
	if r == nil {
		panic(fmt.Sprintf("unset reg %s in %s", v.Name(), f.fn))
	}
	return r
}

func (in *Interp) setReg(f *Frame, v ssa.Value, val Value) {
	f.regs[in.regs(f.fn)[v]] = val
}

func (in *Interp) globalPtr(st *State, g *ssa.Global) Value {
	if id, ok := st.globals[g]; ok {
		return Ptr{Obj: id}
	}
	pkg := g.Pkg
	allowed := in.initAllowed(pkg)
	for _, m := range pkg.Members {
		if gg, ok := m.(*ssa.Global); ok {
			if _, ok := st.globals[gg]; !ok {
				et := gg.Type().(*types.Pointer).Elem()
				var cell Value = in.zero(et)
				if gg.String() == "time.startNano" || gg.String() == "internal/bytealg.MaxLen" {
					// bytealg.MaxLen = 0: strings.Index and friends take their portable Go paths
					// the monotonic clock of the model counts from process start
				} else if !allowed && !zeroIsFine(et) {
					// the package's init is not executed: its variables have no
					// trustworthy value, any use in a decision ends the path loudly
					cell = Poison{"global " + gg.String() + " of a package whose init is not executed"}
				}
				st.globals[gg] = st.alloc(cell, "global "+gg.String())
			}
		}
	}
	if !st.pkgInit[pkg] {
		st.pkgInit[pkg] = true
		if initFn := pkg.Func("init"); initFn != nil && initFn.Blocks != nil && in.initAllowed(pkg) {
			in.runInit(st, initFn)
		}
	}
	return Ptr{Obj: st.globals[g]}
}

// zeroIsFine: synchronisation primitives and plain counters start at their zero value.
func zeroIsFine(t types.Type) bool {
	if s, ok := t.Underlying().(*types.Struct); ok && s.NumFields() == 0 {
		return true // a type with a single value (sentinels such as internal/poll.errNetClosing{})
	}
	if n, ok := t.(*types.Named); ok && n.Obj().Pkg() != nil {
		p := n.Obj().Pkg().Path()
		if p == "sync" || p == "sync/atomic" {
			return true
		}
	}
	return false
}

var initDeny = []string{"runtime", "internal/", "syscall", "os", "sync", "reflect", "unsafe", "time", "context", "crypto/", "math/rand", "unique",
	"github.com/sirupsen/logrus", "unicode", "fmt", "log", "sort", "database/sql", "github.com/mattn", "github.com/fsnotify",
	"github.com/spf13", "github.com/google/gopacket", "golang.org/x/sys", "golang.org/x/net", "encoding/json", "math/big", "regexp", "text/", "html",
	"github.com/chappjc", "github.com/bits-and-blooms/bitset", "vendor/", "golang.org/x/text", "gopkg.in", "github.com/pelletier", "github.com/hashicorp",
	"github.com/magiconair", "github.com/mitchellh", "github.com/subosito", "github.com/sagikazarmark", "github.com/sourcegraph", "mime", "compress", "archive",
	"encoding/base64", "encoding/hex", "hash", "bufio", "path", "net/http", "net/url", "io/fs", "embed", "flag", "testing", "github.com/stretchr",
	"github.com/davecgh", "github.com/pmezard", "github.com/mdlayher", "github.com/josharian", "github.com/pierrec", "github.com/klauspost", "github.com/u-root/uio/rand"}

func (in *Interp) initAllowed(pkg *ssa.Package) bool {
	p := pkg.Pkg.Path()
	for _, a := range in.eng.initAllow {
		if p == a {
			return true
		}
	}
	for _, deny := range initDeny {
		if p == deny || strings.HasPrefix(p, deny) {
			return false
		}
	}
	return true
}

func (in *Interp) runInit(st *State, fn *ssa.Function) {
	saved := st.stack
	savedPanic := st.panicking
	st.stack = nil
	st.panicking = nil
	defer func() {
		st.panicking = savedPanic
		if r := recover(); r != nil {
			if e, ok := r.(endPath); ok { // init could not be completed: leave the rest zero
				if in.verbose {
					fmt.Printf("init of %s abandoned: %s %s\n", fn.Pkg.Pkg.Path(), e.kind, e.msg)
				}
				st.stack = saved
				pp := fn.Pkg.Pkg.Path()
				if strings.HasPrefix(pp, modPath) || strings.HasPrefix(pp, "github.com/insomniacslk/dhcp") {
					panic(endPath{kind: "unsupported", msg: "package init of " + pp + " could not be completed: " + e.kind + " " + e.msg, pos: e.pos})
				}
				return
			}
			if _, ok := r.(forkReq); ok {
				st.stack = saved
				return
			}
			panic(r)
		}
	}()
	in.pushFrame(st, fn, nil, nil)
	st.top().initCall = true
	for len(st.stack) > 0 {
		in.step(st)
	}
	st.stack = saved
}

func (in *Interp) pushFrame(st *State, fn *ssa.Function, args []Value, env []Value) {
	if fn.Blocks == nil {
		panic(endPath{kind: "unsupported", msg: "no body: " + fn.String()})
	}
	in.funcs[fn] = true
	m := in.regs(fn)
	f := &Frame{fn: fn, regs: make([]Value, len(m)), block: fn.Blocks[0], epoch: st.nforks, heapBase: len(st.heap), fx: st.effects(), pcBase: len(st.pc)}
	if len(args) != len(fn.Params) {
		panic(endPath{kind: "unsupported", msg: fmt.Sprintf("arity mismatch calling %s: %d args for %d params", fn, len(args), len(fn.Params))})
	}
	for i, p := range fn.Params {
		f.regs[m[p]] = args[i]
	}
	for i, fv := range fn.FreeVars {
		f.regs[m[fv]] = env[i]
	}
	st.stack = append(st.stack, f)
	if len(st.stack) > 300 {
		panic(endPath{kind: "unsupported", msg: "stack depth"})
	}
}

// goPanic starts a Go panic: if nothing on the stack has deferred calls the
// path ends right away, otherwise the defers are run (and may recover).
func (in *Interp) goPanic(st *State, msg string, pos token.Pos, val Value) {
	any := false
	for _, f := range st.stack {
		if len(f.defers) > 0 {
			any = true
		}
	}
	inInit := len(st.stack) > 0 && st.stack[0].initCall
	if !any || st.panicking != nil || inInit {
		panic(endPath{kind: "panic", msg: msg, pos: pos})
	}
	if val == nil {
		val = Iface{T: types.Typ[types.String], V: in.strConst(st, msg)}
	}
	st.panicking = &panicInfo{kind: "panic", msg: msg, pos: pos, val: val, deferBase: len(st.stack), stack: in.stackString(st)}
	panic(contReq{})
}

func (in *Interp) unwindStep(st *State) {
	pi := st.panicking
	if len(st.stack) == 0 {
		panic(endPath{kind: "panic", msg: pi.msg + " [at: " + pi.stack + "]", pos: pi.pos})
	}
	f := st.top()
	if n := len(f.defers); n > 0 {
		d := f.defers[n-1]
		f.defers = f.defers[:n-1]
		pi.deferBase = len(st.stack)
		in.callValue(st, nil, d.fn, d.args, pi.pos, false, nil)
		return
	}
	st.stack = st.stack[:len(st.stack)-1]
	st.retDirty = true
	pi.deferBase = len(st.stack)
	if len(st.stack) == 0 || (len(st.stack) > 0 && f.initCall) {
		panic(endPath{kind: "panic", msg: pi.msg + " [at: " + pi.stack + "]", pos: pi.pos})
	}
}

// ---------- the step function ----------

func (in *Interp) step(st *State) {
	if len(st.stack) == 0 {
		panic(endPath{kind: "ok"})
	}
	if st.panicking != nil && len(st.stack) <= st.panicking.deferBase {
		in.unwindStep(st)
		return
	}
	f := st.top()
	if f.recovered {
		if n := len(f.defers); n > 0 {
			d := f.defers[n-1]
			f.defers = f.defers[:n-1]
			in.callValue(st, nil, d.fn, d.args, token.NoPos, false, nil)
			return
		}
		f.recovered = false
		if f.fn.Recover != nil {
			f.block = f.fn.Recover
			f.pc = 0
			return
		}
		res := f.fn.Signature.Results()
		switch res.Len() {
		case 0:
			in.ret(st, nil)
		case 1:
			in.ret(st, in.zero(res.At(0).Type()))
		default:
			in.ret(st, in.zero(res))
		}
		return
	}
	ins := f.block.Instrs[f.pc]
	in.nInstr++
	st.steps++
	if in.stepCap > 0 && st.steps > in.stepCap {
		panic(endPath{kind: "unwind-exceeded", msg: "instruction budget of the path exhausted"})
	}
	defer func() {
		if r := recover(); r != nil {
			if _, isRT := r.(runtime.Error); isRT || isStringPanic(r) {
				// use of a poison/unsupported value
				if len(st.stack) > 0 && st.stack[0].initCall {
					if v, ok := ins.(ssa.Value); ok {
						in.setReg(f, v, Poison{fmt.Sprint(r)})
					}
					if _, isRet := ins.(*ssa.Return); isRet {
						in.ret(st, Poison{fmt.Sprint(r)})
						return
					}
					switch ins.(type) {
					case *ssa.If:
						in.jump(st, f, f.block.Succs[1], false)
						return
					case *ssa.Jump, *ssa.Call:
						panic(endPath{kind: "unsupported", msg: fmt.Sprintf("%v at %s", r, ins), pos: ins.Pos()})
					}
					f.pc++
					return
				}
				if in.verbose {
					buf := make([]byte, 4096)
					buf = buf[:runtime.Stack(buf, false)]
					fmt.Printf("engine fault: %v\n%s\n", r, buf)
				}
				panic(endPath{kind: "unsupported", msg: fmt.Sprintf("%v at %s in %s", r, ins, f.fn), pos: ins.Pos()})
			}
			panic(r)
		}
	}()
	if in.verbose {
		fmt.Printf("  [%s b%d.%d] %s\n", f.fn.Name(), f.block.Index, f.pc, ins)
	}
	switch x := ins.(type) {
	case *ssa.Alloc:
		et := x.Type().(*types.Pointer).Elem()
		id := st.alloc(in.zero(et), "alloc "+f.fn.Name()+":"+x.Comment)
		in.setReg(f, x, Ptr{Obj: id})
	case *ssa.Phi:
		panic("phi reached directly")
	case *ssa.BinOp:
		in.setReg(f, x, in.binop(st, x.Op, in.eval(st, f, x.X), in.eval(st, f, x.Y), x.X.Type(), x.Pos()))
	case *ssa.UnOp:
		a := in.eval(st, f, x.X)
		if ch, ok := a.(ChanRef); ok && x.Op == token.ARROW {
			v, blocked := in.chanRecv(st, x, ch)
			if blocked != "" {
				in.park(st, blocked, x.Pos())
				return
			}
			in.setReg(f, x, v)
			break
		}
		in.setReg(f, x, in.unop(st, x, a))
	case *ssa.ChangeType:
		in.setReg(f, x, in.eval(st, f, x.X))
	case *ssa.ChangeInterface:
		in.setReg(f, x, in.eval(st, f, x.X))
	case *ssa.Convert:
		in.setReg(f, x, in.convert(st, in.eval(st, f, x.X), x.X.Type(), x.Type()))
	case *ssa.MakeInterface:
		in.setReg(f, x, Iface{T: x.X.Type(), V: in.eval(st, f, x.X)})
	case *ssa.Extract:
		tv := in.eval(st, f, x.Tuple)
		tp, ok := tv.(Tuple)
		if !ok {
			in.setReg(f, x, Poison{fmt.Sprintf("extract from %T", tv)})
		} else {
			in.setReg(f, x, tp.E[x.Index])
		}
	case *ssa.FieldAddr:
		pv := in.eval(st, f, x.X)
		p, ok := pv.(Ptr)
		if !ok {
			in.setReg(f, x, Poison{fmt.Sprintf("fieldaddr of %T", pv)})
			break
		}
		if p.IsNil() {
			in.goPanic(st, "nil pointer dereference (field)", x.Pos(), nil)
		}
		p = in.concretePtr(st, p)
		in.setReg(f, x, p.ext(x.Field))
	case *ssa.Field:
		sv := in.eval(st, f, x.X)
		s, ok := sv.(Struct)
		if !ok {
			in.setReg(f, x, Poison{fmt.Sprintf("field of %T", sv)})
		} else {
			in.setReg(f, x, s.F[x.Field])
		}
	case *ssa.IndexAddr:
		in.setReg(f, x, in.indexAddr(st, in.eval(st, f, x.X), in.eval(st, f, x.Index), x.Pos()))
	case *ssa.Index:
		in.setReg(f, x, in.indexVal(st, in.eval(st, f, x.X), in.eval(st, f, x.Index), x.Pos()))
	case *ssa.Lookup:
		in.setReg(f, x, in.lookup(st, x, in.eval(st, f, x.X), in.eval(st, f, x.Index)))
	case *ssa.Slice:
		in.setReg(f, x, in.slice(st, f, x))
	case *ssa.SliceToArrayPointer:
		in.setReg(f, x, in.sliceToArrayPtr(st, x, in.eval(st, f, x.X)))
	case *ssa.MakeSlice:
		n := int(in.concretize(st, in.termOf(in.eval(st, f, x.Len), "makeslice len"), "makeslice len"))
		c := int(in.concretize(st, in.termOf(in.eval(st, f, x.Cap), "makeslice cap"), "makeslice cap"))
		if n < 0 || c < n || c > 1<<24 {
			in.goPanic(st, "makeslice: len out of range", x.Pos(), nil)
		}
		et := x.Type().Underlying().(*types.Slice).Elem()
		e := make([]Value, c)
		z := in.zero(et)
		for i := range e {
			e[i] = z
		}
		id := st.alloc(Array{E: e}, "makeslice")
		in.setReg(f, x, Slice{Obj: id, Len: n, Cap: c})
	case *ssa.MakeClosure:
		env := make([]Value, len(x.Bindings))
		for i, b := range x.Bindings {
			env[i] = in.eval(st, f, b)
		}
		in.setReg(f, x, Closure{Fn: x.Fn.(*ssa.Function), Env: env})
	case *ssa.MakeMap:
		id := st.alloc(MapData{}, "map")
		in.setReg(f, x, MapRef{Obj: id})
	case *ssa.MakeChan:
		in.setReg(f, x, ChanRef{Obj: st.alloc(ChanData{}, "chan")})
	case *ssa.MapUpdate:
		mv := in.eval(st, f, x.Map)
		mr, ok := mv.(MapRef)
		if !ok {
			panic(endPath{kind: "unsupported", msg: fmt.Sprintf("map update on %T", mv), pos: x.Pos()})
		}
		if mr.Nil {
			in.goPanic(st, "assignment to entry in nil map", x.Pos(), nil)
		}
		key, val := in.eval(st, f, x.Key), in.eval(st, f, x.Value)
		md := st.heap[mr.Obj].Cell.(MapData)
		found := -1
		for i, k := range md.Keys {
			if in.decide(st, in.valueEq(st, k, key)) {
				found = i
				break
			}
		}
		nk := append([]Value(nil), md.Keys...)
		nv := append([]Value(nil), md.Vals...)
		if found >= 0 {
			nv[found] = val
		} else {
			nk = append(nk, key)
			nv = append(nv, val)
		}
		in.logAccess(st, mr.Obj, nil, true, x.Pos())
		st.setCell(mr.Obj, MapData{Keys: nk, Vals: nv})
	case *ssa.TypeAssert:
		in.setReg(f, x, in.typeAssert(st, x, in.eval(st, f, x.X)))
	case *ssa.Store:
		pv := in.eval(st, f, x.Addr)
		p, ok := pv.(Ptr)
		if !ok {
			panic(endPath{kind: "unsupported", msg: fmt.Sprintf("store through %T", pv), pos: x.Pos()})
		}
		if p.IsNil() {
			in.goPanic(st, "nil pointer dereference (store)", x.Pos(), nil)
		}
		in.storePtr(st, p, in.eval(st, f, x.Val), x.Pos())
	case *ssa.If:
		c := in.termOf(in.eval(st, f, x.Cond), "if condition")
		sym := !c.IsBoolConst()
		if in.decide(st, c) {
			in.jump(st, f, f.block.Succs[0], sym)
		} else {
			in.jump(st, f, f.block.Succs[1], sym)
		}
		return
	case *ssa.Jump:
		in.jump(st, f, f.block.Succs[0], false)
		return
	case *ssa.Return:
		var res Value
		switch len(x.Results) {
		case 0:
			res = nil
		case 1:
			res = in.eval(st, f, x.Results[0])
		default:
			e := make([]Value, len(x.Results))
			for i, r := range x.Results {
				e[i] = in.eval(st, f, r)
			}
			res = Tuple{E: e}
		}
		in.ret(st, res)
		return
	case *ssa.RunDefers:
		if n := len(f.defers); n > 0 {
			d := f.defers[n-1]
			in.callValue(st, nil, d.fn, d.args, x.Pos(), false, func() { f.defers = f.defers[:n-1] })
			return // pc not advanced: come back to RunDefers
		}
	case *ssa.Defer:
		fn, args := in.prepareCall(st, f, &x.Call)
		f.defers = append(f.defers, deferred{fn: fn, args: args})
	case *ssa.Panic:
		v := in.eval(st, f, x.X)
		in.goPanic(st, "explicit panic: "+in.describePanic(st, v), x.Pos(), v)
	case *ssa.Call:
		fn, args := in.prepareCall(st, f, &x.Call)
		if c, ok := fn.(Closure); ok && c.Fn != nil && c.Fn.Name() == "RunGoroutines" && c.Fn.Pkg != nil && strings.HasSuffix(c.Fn.Pkg.Pkg.Path(), "/internal/vnd") {
			if in.runGoroutines(st, x.Pos()) {
				f.pc++
			}
			return
		}
		in.callValue(st, x, fn, args, x.Pos(), true, nil)
		return
	case *ssa.Go:
		// the goroutine does not run here: it is remembered (callee and arguments
		// evaluated now, as Go does) and runs when the harness calls vnd.RunGoroutines
		fn, args := in.prepareCall(st, f, &x.Call)
		st.events = append(st.events, "go "+x.Call.String())
		st.goroutines = append(append([]goroutine(nil), st.goroutines...), goroutine{fn: fn, args: args, desc: x.Call.String()})
	case *ssa.Range:
		in.setReg(f, x, in.rangeStart(st, in.eval(st, f, x.X)))
	case *ssa.Next:
		in.setReg(f, x, in.rangeNext(st, x, in.eval(st, f, x.Iter)))
	case *ssa.DebugRef:
	case *ssa.Send:
		cv := in.eval(st, f, x.Chan)
		ch, ok := cv.(ChanRef)
		if !ok {
			panic(endPath{kind: "unsupported", msg: fmt.Sprintf("send on %T", cv), pos: x.Pos()})
		}
		st.events = append(st.events, "chan send")
		if ch.Nil {
			in.park(st, "send on nil channel", x.Pos())
			return
		}
		cd := st.heap[ch.Obj].Cell.(ChanData)
		if cd.Closed {
			in.goPanic(st, "send on closed channel", x.Pos(), nil)
		}
		st.setCell(ch.Obj, ChanData{Q: append(append([]Value(nil), cd.Q...), in.eval(st, f, x.X)), Closed: false})
	case *ssa.Select:
		panic(endPath{kind: "unsupported", msg: fmt.Sprintf("instruction %T", ins), pos: ins.Pos()})
	default:
		panic(endPath{kind: "unsupported", msg: fmt.Sprintf("instruction %T", ins), pos: ins.Pos()})
	}
	f.pc++
}

// park: the running goroutine blocks forever. Its frames are dropped (deferred
// calls do not run, as for a goroutine that never resumes) and control goes
// back to the vnd.RunGoroutines call that started it.
func (in *Interp) park(st *State, why string, pos token.Pos) {
	for i := len(st.stack) - 1; i >= 1; i-- {
		if st.stack[i].goRoot {
			st.events = append(st.events, "goroutine parked: "+why)
			st.stack = st.stack[:i]
			return
		}
	}
	panic(endPath{kind: "unsupported", msg: why + ": blocks forever outside a goroutine started by vnd.RunGoroutines", pos: pos})
}

// runGoroutines implements vnd.RunGoroutines: while go statements are pending,
// run the oldest one to completion (or until it blocks); the call instruction is
// re-executed until none is left. Returns true once nothing is pending.
func (in *Interp) runGoroutines(st *State, pos token.Pos) bool {
	if len(st.goroutines) == 0 {
		return true
	}
	g := st.goroutines[0]
	st.goroutines = append([]goroutine(nil), st.goroutines[1:]...)
	st.events = append(st.events, "run "+g.desc)
	depth := len(st.stack)
	in.callValue(st, nil, g.fn, g.args, pos, false, nil)
	if len(st.stack) > depth {
		st.top().goRoot = true
	}
	return false
}

func (in *Interp) describePanic(st *State, v Value) string {
	if i, ok := v.(Iface); ok && i.T != nil {
		if s, ok := i.V.(Slice); ok && s.Str {
			return in.strOf(st, s)
		}
		return i.T.String()
	}
	return describe(v)
}

func (in *Interp) jump(st *State, f *Frame, to *ssa.BasicBlock, symbolic bool) {
	from := f.block
	if symbolic {
		f.symCount++
	}
	if to.Index <= from.Index { // an edge of every cycle: count loop iterations
		if f.visits == nil {
			f.visits = map[*ssa.BasicBlock]int{}
			f.lastSym = map[*ssa.BasicBlock]int{}
		}
		f.total++
		if f.lastSym[to] != f.symCount+1 {
			// a symbolic decision was taken in this activation since the last time round
			f.visits[to]++
			f.lastSym[to] = f.symCount + 1
		}
		if f.visits[to] > in.unwind {
			panic(endPath{kind: "unwind-exceeded", msg: fmt.Sprintf("%s block %d (bound %d)", f.fn, to.Index, in.unwind)})
		}
		if f.total > 1<<22 {
			panic(endPath{kind: "unwind-exceeded", msg: fmt.Sprintf("%s block %d (concrete loop cap)", f.fn, to.Index)})
		}
	}
	var vals []Value
	var phis []*ssa.Phi
	predIdx := -1
	for i, p := range to.Preds {
		if p == from {
			predIdx = i
			break
		}
	}
	for _, ins := range to.Instrs {
		phi, ok := ins.(*ssa.Phi)
		if !ok {
			break
		}
		phis = append(phis, phi)
		vals = append(vals, in.eval(st, f, phi.Edges[predIdx]))
	}
	for i, phi := range phis {
		in.setReg(f, phi, vals[i])
	}
	f.prev = from
	f.block = to
	f.pc = len(phis)
}

func (in *Interp) ret(st *State, res Value) {
	f := st.top()
	st.stack = st.stack[:len(st.stack)-1]
	st.retDirty = f.dirty
	if len(st.stack) == 0 {
		if f.initCall {
			return
		}
		if len(st.locks) > 0 {
			panic(endPath{kind: "lock-leak", msg: fmt.Sprintf("%d mutexes held at exit of the entry: %v", len(st.locks), st.lockOrder)})
		}
		panic(endPath{kind: "ok"})
	}
	if f.syncOut != nil {
		*f.syncOut = res
		return
	}
	if f.retTo != nil {
		caller := st.top()
		in.setReg(caller, f.retTo, res)
	}
}

// callSync runs fn(args) to completion inside the current step (used by the
// formatting intrinsics for String()/Error() methods of concrete values). It
// only succeeds when the callee neither forks nor ends the path; otherwise the
// state is put back as it was and ok is false.
func (in *Interp) callSync(st *State, fn *ssa.Function, args []Value) (res Value, ok bool) {
	if fn == nil || fn.Blocks == nil {
		if fn == nil {
			return nil, false
		}
		if in.eng.buildOnDemand(fn); fn.Blocks == nil {
			return nil, false
		}
	}
	// On failure only the callee's frames are dropped: forks are requested before
	// anything is mutated, and what a String()/Error() method has done up to that
	// point (allocations, package initialisation) is kept - rolling the state back
	// would also roll back package initialisers, which would then run again on
	// every formatting call.
	depth := len(st.stack)
	panicking := st.panicking
	defer func() {
		if r := recover(); r != nil {
			switch r.(type) {
			case forkReq, endPath, contReq:
				st.stack = st.stack[:depth]
				st.panicking = panicking
				res, ok = nil, false
			default:
				panic(r)
			}
		}
	}()
	var out Value
	in.pushFrame(st, fn, args, nil)
	st.top().syncOut = &out
	for n := 0; len(st.stack) > depth; n++ {
		if n > 200000 {
			st.stack = st.stack[:depth]
			return nil, false
		}
		in.step(st)
	}
	return out, true
}

func (in *Interp) prepareCall(st *State, f *Frame, c *ssa.CallCommon) (Value, []Value) {
	var args []Value
	var fn Value
	if c.IsInvoke() {
		rv := in.eval(st, f, c.Value)
		recv, ok := rv.(Iface)
		if !ok {
			panic(endPath{kind: "unsupported", msg: fmt.Sprintf("invoke %s on %T", c.Method.Name(), rv), pos: c.Pos()})
		}
		if recv.T == nil {
			in.goPanic(st, "nil interface method call "+c.Method.Name(), c.Pos(), nil)
		}
		ms := in.prog.MethodSets.MethodSet(recv.T)
		sel := ms.Lookup(c.Method.Pkg(), c.Method.Name())
		if sel == nil {
			panic(endPath{kind: "unsupported", msg: "method not found " + c.Method.Name() + " on " + recv.T.String()})
		}
		m := in.eng.methodValue(sel)
		if m == nil {
			panic(endPath{kind: "unsupported", msg: "no method value " + c.Method.Name() + " on " + recv.T.String()})
		}
		fn = Closure{Fn: m}
		args = append(args, recv.V)
	} else {
		fn = in.eval(st, f, c.Value)
	}
	for _, a := range c.Args {
		args = append(args, in.eval(st, f, a))
	}
	return fn, args
}

func (in *Interp) callValue(st *State, retTo ssa.Value, fn Value, args []Value, pos token.Pos, advance bool, commit func()) {
	caller := st.top()
	done := func(v Value) { // called once the call can no longer fork
		if commit != nil {
			commit()
		}
		if retTo != nil {
			in.setReg(caller, retTo, v)
		}
		if advance {
			caller.pc++
		}
	}
	switch c := fn.(type) {
	case BuiltinFn:
		done(in.builtin(st, c.Name, args, retTo, pos))
	case Closure:
		if c.Nil || c.Fn == nil {
			in.goPanic(st, "call of nil func", pos, nil)
		}
		target := c.Fn
		if rep, ok := in.stubs[target.String()]; ok && !in.insideStub(st, rep) {
			target = rep
		} else if c.Fn.Origin() != nil {
			if rep, ok := in.stubs[c.Fn.Origin().String()]; ok {
				target = rep
			}
		}
		if target == c.Fn {
			if h := in.intrinsicFor(c.Fn); h != nil {
				if res, handled := h(in, st, c.Fn, args, retTo, pos); handled {
					done(res)
					return
				}
			}
		}
		if target.Blocks == nil {
			if in.eng.buildOnDemand(target); target.Blocks == nil {
				panic(endPath{kind: "unsupported", msg: "no body: " + target.String(), pos: pos})
			}
		}
		if commit != nil {
			commit()
		}
		if advance {
			caller.pc++
		}
		env := c.Env
		if target != c.Fn {
			env = nil
		}
		in.pushFrame(st, target, args, env)
		st.top().retTo = retTo
	case Poison:
		panic(endPath{kind: "unsupported", msg: "call of poison value: " + c.Why, pos: pos})
	default:
		panic(endPath{kind: "unsupported", msg: fmt.Sprintf("call of %T", fn), pos: pos})
	}
}

// insideStub reports whether rep is already on the stack (a stub may call the
// function it replaces).
func (in *Interp) insideStub(st *State, rep *ssa.Function) bool {
	for _, f := range st.stack {
		if f.fn == rep {
			return true
		}
	}
	return false
}

func isStringPanic(r interface{}) bool { _, ok := r.(string); return ok }
