package main

import (
	"crypto/sha1"
	"encoding/json"
	"fmt"
	"os"
	"path/filepath"
	"sort"
	"strings"
	"sync/atomic"
	"time"

	"golang.org/x/tools/go/ssa"
)

var inconclusiveKinds = map[string]bool{"unsupported": true, "unwind-exceeded": true, "concretise-cap": true, "solver-unknown": true}
var crashKinds = map[string]bool{"panic": true, "exit": true, "lock-leak": true, "self-deadlock": true, "use-after-recycle": true}

func crashLabel(kind string) string {
	switch kind {
	case "panic":
		return "no panic"
	case "exit":
		return "no process exit"
	case "lock-leak":
		return "no lock left held"
	case "self-deadlock":
		return "no self-deadlock"
	case "use-after-recycle":
		return "no use of a recycled receive buffer"
	}
	return kind
}

func matchKnown(known []KnownFinding, property string, v *violation) *KnownFinding {
	for i := range known {
		k := &known[i]
		if k.Property != property {
			continue
		}
		if v.Finding != "" && k.ID == v.Finding {
			return k
		}
		if k.Match != "" && v.Finding == "" {
			hay := v.Entry + "|" + v.Fn + "|" + v.Label + "|" + v.Msg
			all := true
			for _, part := range strings.Split(k.Match, "&&") {
				if !strings.Contains(hay, strings.TrimSpace(part)) {
					all = false
				}
			}
			if all {
				return k
			}
		}
	}
	return nil
}

func judge(eng *Engine, cfg *Config, ck *CheckCfg, property, tier string, seed int64, known []KnownFinding, tasks []*Task, results []TaskResult,
	t0 time.Time, loadS float64, timeout time.Duration, unwind int, solverBin, second string) int {

	kinds := map[string]int{}
	covers := map[string]int{}
	var viols []*violation
	var incon []string
	var samples []map[string]interface{}
	var valPaths []*validation
	funcs := map[*ssa.Function]bool{}
	var queries, sat, unsat, unknown, instrs, forks, restarts, assertsChecked int
	var solverS, maxQ float64
	otherCrash := 0
	perEntry := map[string]map[string]int{}
	var accAll []access
	accSeen := map[string]bool{}
	for ti, tr := range results {
		t := tasks[ti]
		if tr.Fault != "" {
			incon = append(incon, fmt.Sprintf("%s %s: %s", t.Entry.Entry, picksString(t.Presets), tr.Fault))
		}
		queries += tr.Queries
		sat += tr.Sat
		unsat += tr.Unsat
		unknown += tr.Unknown
		instrs += tr.Instrs
		forks += tr.Forks
		restarts += tr.Restarts
		solverS += tr.SolverS
		if tr.MaxQ > maxQ {
			maxQ = tr.MaxQ
		}
		for f := range tr.Funcs {
			funcs[f] = true
		}
		pe := perEntry[t.Entry.Entry]
		if pe == nil {
			pe = map[string]int{}
			perEntry[t.Entry.Entry] = pe
		}
		for _, r := range tr.Results {
			kinds[r.Kind]++
			pe[r.Kind]++
			if r.Kind == "ok" {
				for c := range r.Covers {
					covers[t.Entry.Entry+":"+c]++
				}
				assertsChecked += r.Asserts
				for _, a := range r.Acc {
					a.Entry = t.Entry.Entry
					k := fmt.Sprint(a.Cell, a.Write, a.Held, a.Entry)
					if !accSeen[k] {
						accSeen[k] = true
						accAll = append(accAll, a)
					}
				}
				if r.Model != nil {
					if len(samples) < 6 {
						samples = append(samples, map[string]interface{}{"entry": t.Entry.Entry, "picks": r.Picks, "draws": r.Draws, "observed": r.Obs, "outcome": "all assertions on this path unsat (hold for every input taking it)"})
					}
					if t.Entry.Native == nil || *t.Entry.Native {
						valPaths = append(valPaths, &validation{Entry: t.Entry, Picks: r.Picks, Draws: r.Draws, Obs: r.Obs})
					}
				}
				continue
			}
			if inconclusiveKinds[r.Kind] {
				if t.Entry.Info {
					continue
				}
				incon = append(incon, fmt.Sprintf("%s %s: %s: %s @ %s", t.Entry.Entry, picksString(r.Picks), r.Kind, r.Msg, r.Pos))
				continue
			}
			if r.Kind == "infeasible" {
				continue
			}
			v := &violation{Entry: t.Entry.Entry, Label: r.Label, Kind: r.Kind, Msg: r.Msg, Pos: r.Pos, Fn: r.Fn, Picks: r.Picks, Draws: r.Draws, Finding: r.Finding, Second: r.Second, EngineOnly: r.EngineOnly}
			if crashKinds[r.Kind] {
				if !ck.PanicsCount && !(ck.LocksCount && (r.Kind == "self-deadlock" || r.Kind == "lock-leak" || r.Kind == "use-after-recycle")) {
					otherCrash++
					continue
				}
				v.Label = ck.Prefix + " " + crashLabel(r.Kind)
			} else if r.Kind == "assert-violated" {
				if !strings.HasPrefix(r.Label, ck.Prefix+" ") && r.Label != ck.Prefix && !strings.HasPrefix(r.Label, "SUMMARY ") {
					continue // another property's label
				}
			}
			if t.Entry.Info {
				fmt.Printf("NOTE (informational harness %s): %s %s @ %s\n", t.Entry.Entry, v.Kind, v.Label, v.Pos)
				continue
			}
			viols = append(viols, v)
		}
	}

	// cover points
	var vacuous []string
	for _, t := range tasks {
		for _, c := range t.Entry.Covers {
			if covers[t.Entry.Entry+":"+c] == 0 {
				key := t.Entry.Entry + ":" + c
				dup := false
				for _, x := range vacuous {
					if x == key {
						dup = true
					}
				}
				if !dup {
					vacuous = append(vacuous, key)
				}
			}
		}
	}

	// deduplicate violations by (entry, label, pos), keep the first few models of each
	sort.SliceStable(viols, func(i, j int) bool {
		if viols[i].Entry != viols[j].Entry {
			return viols[i].Entry < viols[j].Entry
		}
		return viols[i].Label < viols[j].Label
	})
	groups := map[string][]*violation{}
	var order []string
	for _, v := range viols {
		k := v.Entry + "|" + v.Label + "|" + v.Pos + "|" + v.Finding
		if _, ok := groups[k]; !ok {
			order = append(order, k)
		}
		groups[k] = append(groups[k], v)
	}
	replayDir := filepath.Join(outDir(), "replays", property)
	var toReplay []*violation
	entryByName := map[string]*EntryCfg{}
	for _, t := range tasks {
		entryByName[t.Entry.Entry] = t.Entry
	}
	for _, k := range order {
		g := groups[k]
		for i, v := range g {
			if i >= 2 {
				break
			}
			os.MkdirAll(replayDir, 0o755)
			rf := map[string]interface{}{"harness": v.Entry, "package": entryByName[v.Entry].Pkg, "property": property, "picks": v.Picks, "draws": v.Draws,
				"expect": map[string]string{"kind": v.Kind, "label": v.Label, "pos": v.Pos, "msg": v.Msg}, "solver": solverBin}
			b, _ := json.MarshalIndent(rf, "", " ")
			h := sha1.Sum(b)
			v.Replay = filepath.Join(replayDir, fmt.Sprintf("%s-%x.json", v.Entry, h[:5]))
			os.WriteFile(v.Replay, b, 0o644)
			e := entryByName[v.Entry]
			if v.EngineOnly {
				v.Native = "not-replayable (assertion about the engine's lock / heap model, no native counterpart)"
			} else if e.Native == nil || *e.Native {
				toReplay = append(toReplay, v)
			} else {
				v.Native = "not-replayable (environment stubbed in this harness)"
			}
		}
	}
	nativeLabelPrefix = ck.Prefix
	nativeReplay(eng, toReplay, entryByName)

	// validation of the encoder against the real build on non-violating paths
	nval := 8
	if tier == "thorough" {
		nval = 32
	}
	if len(valPaths) > nval {
		// spread over entries deterministically
		sort.SliceStable(valPaths, func(i, j int) bool { return valPaths[i].Entry.Entry < valPaths[j].Entry.Entry })
		step := float64(len(valPaths)) / float64(nval)
		var pick []*validation
		for i := 0; i < nval; i++ {
			pick = append(pick, valPaths[int(float64(i)*step)])
		}
		valPaths = pick
	}
	validated, mismatches := 0, []string(nil)
	if os.Getenv("VERIF_NO_VALIDATE") == "" {
		validated, mismatches = validatePaths(eng, valPaths, property)
	}

	// lockset (C16, L1): every pair of accesses to one shared cell from operations that may run
	// concurrently, at least one of them a write, must hold a common lock (read locks only
	// count against writers)
	if property == "C16" || ck.Lockset {
		for _, lv := range locksetViolations(accAll) {
			v := &violation{Entry: lv.entry, Label: property + " shared state is accessed under a common lock", Kind: "lockset", Msg: lv.msg, Pos: lv.pos, Native: "not-replayable (lockset verdict over symbolic paths; no schedule is executed)"}
			k := "lockset|" + lv.msg
			if _, ok := groups[k]; !ok {
				order = append(order, k)
			}
			groups[k] = append(groups[k], v)
			os.MkdirAll(replayDir, 0o755)
			b, _ := json.MarshalIndent(map[string]interface{}{"property": property, "kind": "lockset", "what": lv.msg, "at": lv.pos}, "", " ")
			h := sha1.Sum(b)
			v.Replay = filepath.Join(replayDir, fmt.Sprintf("lockset-%x.json", h[:5]))
			os.WriteFile(v.Replay, b, 0o644)
		}
	}

	// verdict
	exit := 0
	nViol, nKnown := 0, 0
	var knownLines, violLines, mismatchLines []string
	for _, k := range order {
		g := groups[k]
		v := g[0]
		kf := matchKnown(known, property, v)
		if kf != nil && kf.Status == "known" {
			nKnown++
			knownLines = append(knownLines, fmt.Sprintf("KNOWN-FINDING: property=%s %s (%s; %d paths; e.g. %s)", property, kf.What, kf.ID, len(g), v.Replay))
			continue
		}
		reproduced := false
		unrepl := false
		for i, x := range g {
			if i >= 2 {
				break
			}
			if strings.HasPrefix(x.Native, "reproduced") {
				reproduced = true
				v = x
			}
			if strings.HasPrefix(x.Native, "not-replayable") {
				unrepl = true
			}
		}
		if reproduced || unrepl {
			nViol++
			word := "VIOLATION"
			if property == "SELFTEST" {
				word = "EXPECTED-FALSE-ASSERTION-FOUND"
			}
			violLines = append(violLines, fmt.Sprintf("%s property=%s replay=%s", word, property, v.Replay))
			violLines = append(violLines, fmt.Sprintf("  harness=%s label=%q kind=%s at=%s picks=%s paths=%d native=%s", v.Entry, v.Label, v.Kind, v.Pos, picksString(v.Picks), len(g), v.Native))
			if v.Msg != "" && v.Msg != v.Label {
				violLines = append(violLines, "  "+v.Msg)
			}
		} else {
			mismatchLines = append(mismatchLines, fmt.Sprintf("ENCODER-MISMATCH property=%s harness=%s label=%q: solver counterexample did not reproduce natively (%s) replay=%s", property, v.Entry, v.Label, v.Native, v.Replay))
		}
	}
	for _, l := range knownLines {
		fmt.Println(l)
	}
	for _, l := range violLines {
		fmt.Println(l)
	}
	for _, l := range mismatchLines {
		fmt.Println(l)
	}
	for _, m := range mismatches {
		fmt.Println("ENCODER-MISMATCH (validation)", m)
	}
	if len(incon) > 0 {
		sort.Strings(incon)
		for i, l := range incon {
			if i >= 12 {
				fmt.Printf("  ... %d more\n", len(incon)-i)
				break
			}
			fmt.Println("INCONCLUSIVE", l)
		}
	}
	for _, v := range vacuous {
		fmt.Println("VACUOUS cover point never reached:", v)
	}
	switch {
	case nViol > 0:
		exit = 1
	case len(incon) > 0 || len(vacuous) > 0 || len(mismatchLines) > 0 || len(mismatches) > 0 || atomic.LoadInt64(&eng.secondDiff) > 0:
		exit = 3
	}

	// evidence
	wall := time.Since(t0).Seconds()
	type fnInfo struct {
		Name   string `json:"name"`
		Instrs int    `json:"ssa_instructions"`
		File   string `json:"file,omitempty"`
	}
	var fl []fnInfo
	repoFns := 0
	for f := range funcs {
		n := 0
		for _, b := range f.Blocks {
			n += len(b.Instrs)
		}
		file := ""
		if f.Pos().IsValid() {
			file = eng.prog.Fset.Position(f.Pos()).Filename
		}
		if strings.HasPrefix(file, repoDir+"/") && !strings.Contains(file, "zz_verif_") && !strings.Contains(file, "/internal/vnd/") {
			repoFns++
		}
		fl = append(fl, fnInfo{Name: f.String(), Instrs: n, File: strings.TrimPrefix(file, repoDir+"/")})
	}
	sort.Slice(fl, func(i, j int) bool { return fl[i].Name < fl[j].Name })
	var bounds []map[string]interface{}
	seenE := map[*EntryCfg]bool{}
	ntasks := map[*EntryCfg]int{}
	for _, t := range tasks {
		ntasks[t.Entry]++
	}
	for _, t := range tasks {
		if seenE[t.Entry] {
			continue
		}
		seenE[t.Entry] = true
		uw := unwind
		if t.Entry.Unwind > 0 {
			uw = t.Entry.Unwind
		}
		g := t.Entry.Grid[tier]
		if g == nil {
			g = t.Entry.Grid["all"]
		}
		var stubs []string
		for q, r := range t.Entry.Stubs {
			stubs = append(stubs, q+" => "+r)
		}
		sort.Strings(stubs)
		bounds = append(bounds, map[string]interface{}{"entry": t.Entry.Entry, "package": t.Entry.Pkg, "case_grid": g, "tasks": ntasks[t.Entry], "loop_unwind_per_activation": uw,
			"path_kinds": perEntry[t.Entry.Entry], "stubs": stubs, "native_replay": t.Entry.Native == nil || *t.Entry.Native})
	}
	var vs []map[string]interface{}
	for _, k := range order {
		v := groups[k][0]
		vs = append(vs, map[string]interface{}{"harness": v.Entry, "label": v.Label, "kind": v.Kind, "pos": v.Pos, "paths": len(groups[k]), "replay": v.Replay, "native": v.Native, "finding": v.Finding})
	}
	if len(samples) == 0 {
		samples = append(samples, map[string]interface{}{"note": "no ok path carried a model in this run"})
	}
	states := 0
	for k, n := range kinds {
		if k != "infeasible" {
			states += n
		}
	}
	ev := map[string]interface{}{
		"property_id": property,
		"tier":        tier,
		"seed":        seed,
		"level":       "model_checking",
		"wall_s":      wall,
		"violations":  nViol,
		"coverage": map[string]interface{}{
			"states":                        states,
			"transitions":                   forks + queries,
			"traces_validated_against_impl": validated,
			"samples":                       samples,
			"explanation": "bounded symbolic execution of the real code (go/ssa of /repo's working tree + dependencies); every assertion and implicit Go check is an SMT query over all inputs taking the path; " +
				"states = path end-states, transitions = fork points + solver queries",
			"exhaustive":               len(incon) == 0 && ck.ExhaustiveTier == tier,
			"all_paths_within_bounds_explored": len(incon) == 0,
			"path_kinds":               kinds,
			"functions_encoded":        fl,
			"functions_encoded_count":  len(fl),
			"repo_functions_encoded":   repoFns,
			"bounds":                   bounds,
			"queries":                  map[string]int{"total": queries, "sat": sat, "unsat": unsat, "unknown": unknown},
			"solver":                   solverBin,
			"solver_s":                 solverS,
			"solver_max_query_s":       maxQ,
			"solver_restarts":          restarts,
			"per_query_timeout_s":      timeout.Seconds(),
			"ssa_instructions_executed": instrs,
			"assertions_discharged":    assertsChecked,
			"cover_points":             covers,
			"vacuous_cover_points":     vacuous,
			"known_findings_reported":  nKnown,
			"violations_detail":        vs,
			"inconclusive":             incon,
			"crash_paths_accounted_elsewhere": otherCrash,
			"second_solver":            map[string]interface{}{"name": second, "agree": atomic.LoadInt64(&eng.secondSame), "disagree": atomic.LoadInt64(&eng.secondDiff)},
			"load_and_ssa_build_s":     loadS,
			"validation_mismatches":    mismatches,
			"trusted_base":             ck.Trusted,
			"lockset":                  locksetSummary(eng, accAll),
		},
		"assumptions": ck.Assumptions,
	}
	if ck.Level != "" {
		ev["level"] = ck.Level
	}
	os.MkdirAll(filepath.Join(outDir(), "evidence"), 0o755)
	b, _ := json.MarshalIndent(ev, "", " ")
	if property != "SELFTEST" {
		os.WriteFile(filepath.Join(outDir(), "evidence", property+".json"), b, 0o644)
	}

	fmt.Printf("%s %s: %d tasks, %d paths %v, %d queries (sat %d unsat %d unknown %d), solver %.1fs (max %.2fs), %d functions (%d of /repo), %d assertions discharged, validated %d, wall %.1fs -> exit %d\n",
		property, tier, len(tasks), states, kinds, queries, sat, unsat, unknown, solverS, maxQ, len(fl), repoFns, assertsChecked, validated, wall, exit)
	return exit
}

func locksetSummary(eng *Engine, acc []access) interface{} {
	if len(acc) == 0 {
		return nil
	}
	type key struct {
		cell  string
		write bool
		held  string
	}
	seen := map[key]int{}
	for _, a := range acc {
		seen[key{a.Cell, a.Write, a.Held}]++
	}
	var out []map[string]interface{}
	for k, n := range seen {
		out = append(out, map[string]interface{}{"cell": k.cell, "write": k.write, "held": k.held, "count": n})
	}
	sort.Slice(out, func(i, j int) bool { return fmt.Sprint(out[i]) < fmt.Sprint(out[j]) })
	if len(out) > 200 {
		out = out[:200]
	}
	return out
}

type locksetViol struct{ entry, msg, pos string }

func heldSet(h string) (w map[string]bool, r map[string]bool) {
	w, r = map[string]bool{}, map[string]bool{}
	for _, p := range strings.Split(h, ",") {
		if strings.HasPrefix(p, "W:") {
			w[p[2:]] = true
		} else if strings.HasPrefix(p, "R:") {
			r[p[2:]] = true
		}
	}
	return
}

func commonLock(a, b access) bool {
	aw, ar := heldSet(a.Held)
	bw, br := heldSet(b.Held)
	for l := range aw {
		if bw[l] || br[l] {
			return true
		}
	}
	for l := range bw {
		if ar[l] {
			return true
		}
	}
	return false
}

func locksetViolations(acc []access) []locksetViol {
	byCell := map[string][]access{}
	for _, a := range acc {
		byCell[a.Cell] = append(byCell[a.Cell], a)
	}
	var out []locksetViol
	seen := map[string]bool{}
	var cells []string
	for c := range byCell {
		cells = append(cells, c)
	}
	sort.Strings(cells)
	for _, c := range cells {
		as := byCell[c]
		for i := range as {
			for j := i; j < len(as); j++ {
				if !as[i].Write && !as[j].Write {
					continue
				}
				if commonLock(as[i], as[j]) {
					continue
				}
				msg := fmt.Sprintf("cell %s: %s in %s (holding %q) vs %s in %s (holding %q)", c, rw(as[i].Write), as[i].Fn, as[i].Held, rw(as[j].Write), as[j].Fn, as[j].Held)
				if !seen[msg] {
					seen[msg] = true
					out = append(out, locksetViol{entry: as[i].Entry, msg: msg, pos: c})
				}
			}
		}
	}
	return out
}

func rw(w bool) string {
	if w {
		return "write"
	}
	return "read"
}
