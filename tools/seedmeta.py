#!/usr/bin/env python3
# usage: tools/seedmeta.py <seed> <property> <what> <caught_by>   (fills the hand-written fields of seeded/<seed>/meta.json)
import json,sys
seed,prop,what,caught=sys.argv[1:5]
p=f'/verif/seeded/{seed}/meta.json'
d=json.load(open(p))
d.update({"what":what,"needs":"see agent_notes.md (written by the independent sub-agent)","caught_by":caught,"breaks_property":prop})
json.dump(d,open(p,'w'),indent=1)
