package main

import (
	"fmt"
	"math/big"
	"strings"
)

// Term is a hash-consed SMT term. W==0 means Bool.
type Term struct {
	Op   string
	W    int
	Args []*Term
	C    *big.Int // for const
	Name string   // for var
	I, J int      // extract hi, lo; zext/sext amount in I
	Tbl  []*big.Int // op "tbl": constant table indexed by Args[0]
	id   int
}

type termKey struct {
	op         string
	w, i, j    int
	a0, a1, a2 int
	name       string
	c          string
}

type TermFactory struct {
	tab  map[termKey]*Term
	next int
}

func NewTF() *TermFactory { return &TermFactory{tab: map[termKey]*Term{}} }

func (f *TermFactory) mk(op string, w int, args []*Term, c *big.Int, name string, i, j int) *Term {
	k := termKey{op: op, w: w, i: i, j: j, name: name}
	if c != nil {
		if c.IsUint64() {
			k.a0 = int(c.Uint64() & 0x7fffffffffffffff)
			if c.Uint64()>>63 != 0 {
				k.c = "h"
			}
		} else {
			k.c = c.Text(16)
		}
	}
	switch len(args) {
	case 3:
		k.a2 = args[2].id
		fallthrough
	case 2:
		k.a1 = args[1].id
		fallthrough
	case 1:
		k.a0 = args[0].id
	}
	if t, ok := f.tab[k]; ok {
		return t
	}
	f.next++
	t := &Term{Op: op, W: w, Args: args, C: c, Name: name, I: i, J: j, id: f.next}
	f.tab[k] = t
	return t
}

func mask(w int) *big.Int {
	m := new(big.Int).Lsh(big.NewInt(1), uint(w))
	return m.Sub(m, big.NewInt(1))
}

func (f *TermFactory) Const(w int, v *big.Int) *Term {
	c := new(big.Int).And(v, mask(w))
	return f.mk("const", w, nil, c, "", 0, 0)
}
func (f *TermFactory) ConstU(w int, v uint64) *Term { return f.Const(w, new(big.Int).SetUint64(v)) }
func (f *TermFactory) ConstI(w int, v int64) *Term {
	b := big.NewInt(v)
	if v < 0 {
		b.Add(b, new(big.Int).Lsh(big.NewInt(1), uint(w)))
	}
	return f.Const(w, b)
}
func (f *TermFactory) True() *Term  { return f.mk("true", 0, nil, nil, "", 0, 0) }
func (f *TermFactory) False() *Term { return f.mk("false", 0, nil, nil, "", 0, 0) }
func (f *TermFactory) Bool(b bool) *Term {
	if b {
		return f.True()
	}
	return f.False()
}
func (f *TermFactory) Var(name string, w int) *Term {
	return f.mk("var", w, nil, nil, name, 0, 0)
}

func (t *Term) IsConst() bool { return t.Op == "const" }
func (t *Term) IsTrue() bool  { return t.Op == "true" }
func (t *Term) IsFalse() bool { return t.Op == "false" }
func (t *Term) IsBoolConst() bool {
	return t.Op == "true" || t.Op == "false"
}
func (t *Term) U64() uint64 { return t.C.Uint64() }

func signed(w int, c *big.Int) *big.Int {
	if c.Bit(w-1) == 1 {
		return new(big.Int).Sub(c, new(big.Int).Lsh(big.NewInt(1), uint(w)))
	}
	return new(big.Int).Set(c)
}

// Bin builds a bit-vector binary operation with folding.
func (f *TermFactory) Bin(op string, a, b *Term) *Term {
	if a.W != b.W {
		panic(fmt.Sprintf("width mismatch %s %d %d", op, a.W, b.W))
	}
	w := a.W
	if a.IsConst() && b.IsConst() {
		x, y := a.C, b.C
		r := new(big.Int)
		switch op {
		case "bvadd":
			r.Add(x, y)
		case "bvsub":
			r.Sub(x, y)
			if r.Sign() < 0 {
				r.Add(r, new(big.Int).Lsh(big.NewInt(1), uint(w)))
			}
		case "bvmul":
			r.Mul(x, y)
		case "bvand":
			r.And(x, y)
		case "bvor":
			r.Or(x, y)
		case "bvxor":
			r.Xor(x, y)
		case "bvshl":
			if y.Cmp(big.NewInt(int64(w))) >= 0 {
				r.SetInt64(0)
			} else {
				r.Lsh(x, uint(y.Uint64()))
			}
		case "bvlshr":
			if y.Cmp(big.NewInt(int64(w))) >= 0 {
				r.SetInt64(0)
			} else {
				r.Rsh(x, uint(y.Uint64()))
			}
		case "bvashr":
			sx := signed(w, x)
			sh := uint(w)
			if y.Cmp(big.NewInt(int64(w))) < 0 {
				sh = uint(y.Uint64())
			}
			r.Rsh(sx, sh)
			if r.Sign() < 0 {
				r.Add(r, new(big.Int).Lsh(big.NewInt(1), uint(w)))
			}
		case "bvudiv":
			if y.Sign() == 0 {
				r.Set(mask(w))
			} else {
				r.Div(x, y)
			}
		case "bvurem":
			if y.Sign() == 0 {
				r.Set(x)
			} else {
				r.Mod(x, y)
			}
		case "bvsdiv", "bvsrem":
			if y.Sign() == 0 {
				goto nofold
			}
			sx, sy := signed(w, x), signed(w, y)
			if op == "bvsdiv" {
				r.Quo(sx, sy)
			} else {
				r.Rem(sx, sy)
			}
			if r.Sign() < 0 {
				r.Add(r, new(big.Int).Lsh(big.NewInt(1), uint(w)))
			}
		default:
			panic("bin op " + op)
		}
		return f.Const(w, r)
	}
nofold:
	zero := func(t *Term) bool { return t.IsConst() && t.C.Sign() == 0 }
	one := func(t *Term) bool { return t.IsConst() && t.C.Cmp(big.NewInt(1)) == 0 }
	switch op {
	case "bvadd", "bvor", "bvxor":
		if zero(a) {
			return b
		}
		if zero(b) {
			return a
		}
	case "bvsub", "bvshl", "bvlshr", "bvashr":
		if zero(b) {
			return a
		}
		if op != "bvsub" && zero(a) {
			return a
		}
		if op == "bvsub" && a == b {
			return f.ConstU(w, 0)
		}
	case "bvand":
		if zero(a) {
			return a
		}
		if zero(b) {
			return b
		}
		if a.IsConst() && a.C.Cmp(mask(w)) == 0 {
			return b
		}
		if b.IsConst() && b.C.Cmp(mask(w)) == 0 {
			return a
		}
	case "bvmul":
		if zero(a) {
			return a
		}
		if zero(b) {
			return b
		}
		if one(a) {
			return b
		}
		if one(b) {
			return a
		}
	case "bvudiv", "bvsdiv":
		if one(b) {
			return a
		}
	case "bvurem", "bvsrem":
		if one(b) {
			return f.ConstU(w, 0)
		}
	}
	return f.mk(op, w, []*Term{a, b}, nil, "", 0, 0)
}

func (f *TermFactory) Not(a *Term) *Term { // bvnot
	if a.IsConst() {
		return f.Const(a.W, new(big.Int).Xor(a.C, mask(a.W)))
	}
	return f.mk("bvnot", a.W, []*Term{a}, nil, "", 0, 0)
}
func (f *TermFactory) Neg(a *Term) *Term { return f.Bin("bvsub", f.ConstU(a.W, 0), a) }

func (f *TermFactory) Extract(hi, lo int, a *Term) *Term {
	if hi == a.W-1 && lo == 0 {
		return a
	}
	if a.IsConst() {
		r := new(big.Int).Rsh(a.C, uint(lo))
		return f.Const(hi-lo+1, r)
	}
	if a.Op == "zext" && hi < a.Args[0].W {
		return f.Extract(hi, lo, a.Args[0])
	}
	if a.Op == "concat" {
		lw := a.Args[1].W
		if hi < lw {
			return f.Extract(hi, lo, a.Args[1])
		}
		if lo >= lw {
			return f.Extract(hi-lw, lo-lw, a.Args[0])
		}
	}
	return f.mk("extract", hi-lo+1, []*Term{a}, nil, "", hi, lo)
}
func (f *TermFactory) ZExt(w int, a *Term) *Term {
	if w == a.W {
		return a
	}
	if w < a.W {
		return f.Extract(w-1, 0, a)
	}
	if a.IsConst() {
		return f.Const(w, a.C)
	}
	return f.mk("zext", w, []*Term{a}, nil, "", w-a.W, 0)
}
func (f *TermFactory) SExt(w int, a *Term) *Term {
	if w == a.W {
		return a
	}
	if w < a.W {
		return f.Extract(w-1, 0, a)
	}
	if a.IsConst() {
		s := signed(a.W, a.C)
		if s.Sign() < 0 {
			s.Add(s, new(big.Int).Lsh(big.NewInt(1), uint(w)))
		}
		return f.Const(w, s)
	}
	return f.mk("sext", w, []*Term{a}, nil, "", w-a.W, 0)
}
func (f *TermFactory) Concat(hi, lo *Term) *Term {
	if hi.IsConst() && lo.IsConst() {
		r := new(big.Int).Lsh(hi.C, uint(lo.W))
		r.Or(r, lo.C)
		return f.Const(hi.W+lo.W, r)
	}
	return f.mk("concat", hi.W+lo.W, []*Term{hi, lo}, nil, "", 0, 0)
}

// Cmp builds a comparison: "=", "bvult", "bvule", "bvslt", "bvsle".
func (f *TermFactory) Cmp(op string, a, b *Term) *Term {
	if a.W != b.W {
		panic(fmt.Sprintf("cmp width mismatch %s %d %d", op, a.W, b.W))
	}
	if a.W == 0 { // bool equality
		if op != "=" {
			panic("bool cmp")
		}
		if a == b {
			return f.True()
		}
		if a.IsBoolConst() && b.IsBoolConst() {
			return f.Bool(a.Op == b.Op)
		}
		if a.IsTrue() {
			return b
		}
		if b.IsTrue() {
			return a
		}
		if a.IsFalse() {
			return f.LNot(b)
		}
		if b.IsFalse() {
			return f.LNot(a)
		}
		return f.mk("=", 0, []*Term{a, b}, nil, "", 0, 0)
	}
	if a.IsConst() && b.IsConst() {
		var r bool
		switch op {
		case "=":
			r = a.C.Cmp(b.C) == 0
		case "bvult":
			r = a.C.Cmp(b.C) < 0
		case "bvule":
			r = a.C.Cmp(b.C) <= 0
		case "bvslt":
			r = signed(a.W, a.C).Cmp(signed(b.W, b.C)) < 0
		case "bvsle":
			r = signed(a.W, a.C).Cmp(signed(b.W, b.C)) <= 0
		}
		return f.Bool(r)
	}
	if a == b {
		return f.Bool(op == "=" || op == "bvule" || op == "bvsle")
	}
	if a.Op == "tbl" && b.IsConst() && len(a.Tbl) <= 64 {
		return f.cmpTableConst(op, a, b, true)
	}
	if b.Op == "tbl" && a.IsConst() && len(b.Tbl) <= 64 {
		return f.cmpTableConst(op, b, a, false)
	}
	if op == "=" && a.Op == "tbl" && b.Op == "tbl" && sameTable(a, b) && injective(a.Tbl) && a.Args[0].W == b.Args[0].W {
		// both indexes are in range under the path condition
		return f.Cmp("=", a.Args[0], b.Args[0])
	}
	return f.mk(op, 0, []*Term{a, b}, nil, "", 0, 0)
}
func (f *TermFactory) LNot(a *Term) *Term {
	switch a.Op {
	case "true":
		return f.False()
	case "false":
		return f.True()
	case "not":
		return a.Args[0]
	}
	return f.mk("not", 0, []*Term{a}, nil, "", 0, 0)
}
func (f *TermFactory) LAnd(a, b *Term) *Term {
	if a.IsFalse() || b.IsFalse() {
		return f.False()
	}
	if a.IsTrue() {
		return b
	}
	if b.IsTrue() {
		return a
	}
	if a == b {
		return a
	}
	return f.mk("and", 0, []*Term{a, b}, nil, "", 0, 0)
}
func (f *TermFactory) LOr(a, b *Term) *Term {
	if a.IsTrue() || b.IsTrue() {
		return f.True()
	}
	if a.IsFalse() {
		return b
	}
	if b.IsFalse() {
		return a
	}
	if a == b {
		return a
	}
	return f.mk("or", 0, []*Term{a, b}, nil, "", 0, 0)
}
func (f *TermFactory) Ite(c, a, b *Term) *Term {
	if c.IsTrue() {
		return a
	}
	if c.IsFalse() {
		return b
	}
	if a == b {
		return a
	}
	if a.W == 0 {
		if a.IsTrue() && b.IsFalse() {
			return c
		}
		if a.IsFalse() && b.IsTrue() {
			return f.LNot(c)
		}
	}
	return f.mk("ite", a.W, []*Term{c, a, b}, nil, "", 0, 0)
}

func sortStr(w int) string {
	if w == 0 {
		return "Bool"
	}
	return fmt.Sprintf("(_ BitVec %d)", w)
}

// smt prints a term, naming shared nodes through the printer's definition table.
type Printer struct {
	defined map[int]int // term id -> depth at which defined
	out     *strings.Builder
	depth   int
}

func (p *Printer) ref(t *Term) string {
	switch t.Op {
	case "const":
		return fmt.Sprintf("(_ bv%s %d)", t.C.String(), t.W)
	case "var":
		return t.Name
	case "true", "false":
		return t.Op
	}
	if _, ok := p.defined[t.id]; !ok {
		args := make([]string, len(t.Args))
		for i, a := range t.Args {
			args[i] = p.ref(a)
		}
		var e string
		switch t.Op {
		case "extract":
			e = fmt.Sprintf("((_ extract %d %d) %s)", t.I, t.J, args[0])
		case "zext":
			e = fmt.Sprintf("((_ zero_extend %d) %s)", t.I, args[0])
		case "sext":
			e = fmt.Sprintf("((_ sign_extend %d) %s)", t.I, args[0])
		case "tbl":
			iw := t.Args[0].W
			var sb strings.Builder
			n := len(t.Tbl)
			for i := 0; i < n-1; i++ {
				fmt.Fprintf(&sb, "(ite (= %s (_ bv%d %d)) (_ bv%s %d) ", args[0], i, iw, t.Tbl[i].String(), t.W)
			}
			fmt.Fprintf(&sb, "(_ bv%s %d)", t.Tbl[n-1].String(), t.W)
			sb.WriteString(strings.Repeat(")", n-1))
			e = sb.String()
		default:
			e = "(" + t.Op + " " + strings.Join(args, " ") + ")"
		}
		fmt.Fprintf(p.out, "(define-fun t%d () %s %s)\n", t.id, sortStr(t.W), e)
		p.defined[t.id] = p.depth
	}
	return fmt.Sprintf("t%d", t.id)
}

// TableSel is tbl[idx] for a constant table (idx is known to be in range under
// the path condition; out-of-range values select the last element). Keeping
// the table visible lets comparisons be rewritten into conditions on the index.
func (f *TermFactory) TableSel(tbl []*big.Int, w int, idx *Term) *Term {
	if idx.IsConst() {
		i := int(idx.C.Int64())
		if i >= len(tbl) {
			i = len(tbl) - 1
		}
		return f.Const(w, tbl[i])
	}
	var sb strings.Builder
	for _, c := range tbl {
		sb.WriteString(c.Text(16))
		sb.WriteByte(',')
	}
	t := f.mk("tbl", w, []*Term{idx}, nil, sb.String(), 0, 0)
	if t.Tbl == nil {
		t.Tbl = tbl
	}
	return t
}

func sameTable(a, b *Term) bool { return a.Name == b.Name && a.W == b.W }

func injective(tbl []*big.Int) bool {
	seen := map[string]bool{}
	for _, c := range tbl {
		k := c.Text(16)
		if seen[k] {
			return false
		}
		seen[k] = true
	}
	return true
}

// cmpTableConst rewrites (op tbl[i] c) resp. (op c tbl[i]) into a condition on i.
func (f *TermFactory) cmpTableConst(op string, t *Term, c *Term, tblLeft bool) *Term {
	idx := t.Args[0]
	res := f.False()
	n := len(t.Tbl)
	all := true
	for i := n - 1; i >= 0; i-- {
		e := f.Const(t.W, t.Tbl[i])
		var r *Term
		if tblLeft {
			r = f.Cmp(op, e, c)
		} else {
			r = f.Cmp(op, c, e)
		}
		if r.IsTrue() {
			if i == n-1 {
				// the last element also stands for every out-of-range index
				res = f.LOr(res, f.Cmp("bvule", f.ConstU(idx.W, uint64(i)), idx))
			} else {
				res = f.LOr(res, f.Cmp("=", idx, f.ConstU(idx.W, uint64(i))))
			}
		} else {
			all = false
		}
	}
	if all {
		return f.True()
	}
	return res
}
