//go:build verif

package file

import (
	"net"

	"github.com/coredhcp/coredhcp/internal/vnd"
)

// installTable / currentTable name the table a protocol's handler serves from:
// StaticRecords for DHCPv6, staticRecords4 for DHCPv4.
func installTable(v6 bool, t map[string]net.IP) {
	recLock.Lock()
	if v6 {
		StaticRecords = t
	} else {
		staticRecords4 = t
	}
	recLock.Unlock()
}

func currentTable(v6 bool) map[string]net.IP {
	recLock.RLock()
	defer recLock.RUnlock()
	if v6 {
		return StaticRecords
	}
	return staticRecords4
}

// shareTables marks the lease tables as state shared between goroutines
// (handlers, the refresher, a second instance's setup) for the lockset log.
func shareTables() {
	vnd.Share("file.table6", &StaticRecords)
	vnd.Share("file.table4", &staticRecords4)
}
