//go:build verif

package bitmap

import (
	"net"

	"github.com/bits-and-blooms/bitset"
	"github.com/coredhcp/coredhcp/internal/vnd"
	"github.com/coredhcp/coredhcp/plugins/allocators"
)

func lowMask(bits int) vnd.U128 { // the low `bits` bits set
	all := vnd.U128{Hi: ^uint64(0), Lo: ^uint64(0)}
	return vnd.U128Lshr(all, uint(128-bits))
}

// v6State builds an arbitrary valid prefix allocator: pool base aligned to /L,
// allocation length page = L+order, any set of outstanding blocks.
func v6State() (a *Allocator, pre []uint64, base vnd.U128, L, page, n int) {
	L = vnd.Pick("L", 0, 127)
	order := vnd.Pick("order", 0, 12)
	page = L + order
	vnd.Assume(page <= 128)
	n = 1 << uint(order)
	bb := vnd.Bytes("base", 16)
	base = vnd.U128From(bb)
	vnd.Assume(vnd.U128Eq(vnd.U128And(base, lowMask(128-L)), vnd.U128{}))
	// pools inside ::ffff:0:0/96 are IPv4 pools as far as package net is
	// concerned (IPNet.Contains compares 4-byte forms); they are outside the
	// IPv6 allocator's domain and excluded here (see DESIGN.md, C05).
	mapped := vnd.And(bb[10] == 0xff, bb[11] == 0xff)
	for i := 0; i < 10; i++ {
		mapped = vnd.And(mapped, bb[i] == 0)
	}
	vnd.Assume(!mapped)
	nw := (n + 63) / 64
	words := vnd.U64s("bitmap", nw)
	if n%64 != 0 {
		vnd.Assume(words[nw-1]>>(uint(n)%64) == 0)
	}
	pre = hdup(words)
	a = &Allocator{containing: net.IPNet{IP: net.IP(bb), Mask: net.CIDRMask(L, 128)}, page: page, bitmap: bitset.FromWithLength(uint(n), words)}
	return
}

var nonCanonicalMask = net.IPMask{0xff, 0x00, 0xff, 0, 0, 0, 0, 0, 0, 0, 0, 0, 0, 0, 0, 0}

// v6Hint: hint IP in one of the forms {nil, 4 bytes, 16 bytes} and hint mask in
// one of {nil, 4-byte /24, 16-byte canonical of length hl, 16-byte non-canonical}.
// hl is meaningful (counts as a length) only for the canonical 128-bit mask.
func v6Hint(page int) (hint net.IPNet, ipform int, h vnd.U128, hl int, canonical bool) {
	ipform = vnd.Pick("hintip", 0, 2)
	switch ipform {
	case 1:
		hint.IP = net.IP(vnd.Bytes("hint", 4))
	case 2:
		b := vnd.Bytes("hint", 16)
		hint.IP = net.IP(b)
		h = vnd.U128From(b)
	}
	// mask kinds: 0 nil, 1 4-byte /24, 2..6 canonical 128-bit of length
	// 0, page-1, page, page+1, 128, 7 non-canonical, 8 canonical of length "hintlen"
	switch mk := vnd.Pick("hintmask", 0, 8); mk {
	case 1:
		hint.Mask = net.CIDRMask(24, 32)
	case 2, 3, 4, 5, 6, 8:
		switch mk {
		case 2:
			hl = 0
		case 3:
			hl = page - 1
		case 4:
			hl = page
		case 5:
			hl = page + 1
		case 6:
			hl = 128
		case 8:
			hl = vnd.Pick("hintlen", 0, 128)
		}
		if hl < 0 {
			hl = 0
		}
		if hl > 128 {
			hl = 128
		}
		hint.Mask = net.CIDRMask(hl, 128)
		canonical = true
	case 7:
		hint.Mask = nonCanonicalMask
	}
	return
}

// VerifH_v6_alloc: one Allocate from an arbitrary valid prefix allocator (O2).
func VerifH_v6_alloc() {
	a, pre, base, L, page, n := v6State()
	hint, ipform, h, hl, canonical := v6Hint(page)

	vnd.Share("alloc6", a)
	got, err := a.Allocate(hint)
	vnd.Unshare()

	post := a.bitmap.Bytes()
	vnd.Assert(a.bitmap.Len() == uint(n), "C05 v6 bitmap length unchanged")
	vnd.Assert(len(post) == len(pre), "C05 v6 bitmap word count unchanged")
	if len(post) != len(pre) {
		return
	}
	vnd.AssertEngine(vnd.HeldLocks() == 0, "C16 v6 allocator lock released")
	if vnd.Symbolic() {
		vnd.AssertEngine(vnd.Acquisitions(&a.l) <= 1, "C16 one allocator call is one critical section")
	}
	if err != nil {
		vnd.Cover("full")
		if ipform == 2 {
			// a hint naming a free block cannot fail
			if vnd.U128Eq(vnd.U128And(h, vnd.U128Not(lowMask(128-L))), base) {
				hi := vnd.U128Lshr(vnd.U128Sub(h, base), uint(128-page)).Lo
				vnd.Assume(hi < uint64(n))
				vnd.Assert(hbit(pre, hi), "C07 v6 a hint naming a free block is honoured, not refused")
			}
		}
		vnd.Assert(err == allocators.ErrNoAddrAvail, "C05 v6 failure reports no address available")
		vnd.Assert(hallSet(pre, n), "C05 v6 fails only when every block is outstanding")
		vnd.Assert(hsameExcept(post, pre, 0, false, true), "C05 v6 failure changes nothing")
		vnd.Assert(hsameExcept(post, pre, 0, false, true), "C04 v6 a failed allocation leaves every outstanding block outstanding")
		return
	}
	vnd.Cover("allocated")
	vnd.Assert(len(got.IP) == 16, "C05 v6 result is a 16-byte address")
	if len(got.IP) != 16 {
		return
	}
	g := vnd.U128From(got.IP)
	// inside the pool and aligned to the allocation length
	vnd.Assert(vnd.U128Eq(vnd.U128And(g, vnd.U128Not(lowMask(128-L))), base), "C05 v6 allocation lies in the pool")
	vnd.Assert(vnd.U128Eq(vnd.U128And(g, lowMask(128-page)), vnd.U128{}), "C05 v6 allocation is aligned to the allocation length")
	idx := vnd.U128Lshr(vnd.U128Sub(g, base), uint(128-page))
	vnd.Assert(idx.Hi == 0, "C05 v6 block index fits")
	i := idx.Lo
	if ipform == 2 {
		// C07 first, on the returned address itself (the checks below are cut off when the result is not a block of the pool)
		if vnd.U128Eq(vnd.U128And(h, vnd.U128Not(lowMask(128-L))), base) {
			hi0 := vnd.U128Lshr(vnd.U128Sub(h, base), uint(128-page)).Lo
			vnd.Assume(hi0 < uint64(n))
			if !hbit(pre, hi0) {
				want := vnd.U128Add(base, vnd.U128Shl(vnd.U128FromU64(hi0), uint(128-page)))
				vnd.Assert(vnd.U128Eq(g, want), "C07 v6 a hint inside a free block is answered with exactly that block's base address")
			}
		}
	}
	vnd.Assume(i < uint64(n))
	vnd.Assert(!hbit(pre, i), "C04 v6 allocated block was free")
	vnd.Assert(hsameExcept(post, pre, i, true, true), "C04 v6 exactly the allocated block becomes outstanding")
	// size rule
	want := page
	if canonical && hl > page {
		want = hl
	}
	ones, bits := got.Mask.Size()
	vnd.Assert(ones == want && bits == 128, "C05 v6 length is max(allocation length, IPv6 hint length)")
	// hint rule
	if ipform == 2 {
		inPool := vnd.U128Eq(vnd.U128And(h, vnd.U128Not(lowMask(128-L))), base)
		if inPool {
			hi := vnd.U128Lshr(vnd.U128Sub(h, base), uint(128-page)).Lo
			vnd.Assume(hi < uint64(n))
			if !hbit(pre, hi) {
				vnd.Cover("hint-free")
				vnd.Assert(i == hi, "C07 v6 free hinted block is returned exactly")
				blockBase := vnd.U128Add(base, vnd.U128Shl(vnd.U128FromU64(hi), uint(128-page)))
				vnd.Assert(vnd.U128Eq(g, blockBase), "C07 v6 the prefix returned for a hint inside a free block is that block's base")
			} else {
				vnd.Cover("hint-taken")
			}
		} else {
			vnd.Cover("hint-outside")
		}
	}
	vnd.Observe("prefix", got.IP, ones)
}

// VerifH_v6_free: one Free of any IPv6 prefix with a canonical mask (any length:
// sub-prefixes of a block, blocks, prefixes larger than a block) at any position
// relative to the pool (O3).
func VerifH_v6_free() {
	a, pre, base, L, page, n := v6State()
	pb := vnd.Bytes("prefix", 16)
	pl := vnd.Pick("plen", 0, 128)
	p := vnd.U128From(pb)

	vnd.Share("alloc6", a)
	err := a.Free(net.IPNet{IP: net.IP(pb), Mask: net.CIDRMask(pl, 128)})
	vnd.Unshare()

	post := a.bitmap.Bytes()
	vnd.Assert(a.bitmap.Len() == uint(n), "C06 v6 bitmap length unchanged")
	vnd.Assert(len(post) == len(pre), "C06 v6 bitmap word count unchanged")
	if len(post) != len(pre) {
		return
	}
	vnd.AssertEngine(vnd.HeldLocks() == 0, "C16 v6 allocator lock released")
	if vnd.Symbolic() {
		vnd.AssertEngine(vnd.Acquisitions(&a.l) <= 1, "C16 one allocator call is one critical section")
	}
	if pl < page {
		// a prefix larger than one allocation is not a block nor part of one
		vnd.Cover("larger-than-a-block")
		vnd.AssertFinding("C06-v6-free-larger-than-a-block", err != nil, "C06 v6 free of a prefix larger than an allocation fails")
		vnd.AssertFinding("C06-v6-free-larger-than-a-block", hsameExcept(post, pre, 0, false, false), "C06 v6 free of a prefix larger than an allocation changes nothing")
		return
	}
	inPool := vnd.U128Eq(vnd.U128And(p, vnd.U128Not(lowMask(128-L))), base)
	if inPool {
		i := vnd.U128Lshr(vnd.U128Sub(p, base), uint(128-page)).Lo
		vnd.Assume(i < uint64(n))
		if hbit(pre, i) {
			vnd.Cover("freed")
			vnd.Assert(err == nil, "C06 v6 free of a prefix inside an outstanding block succeeds")
			vnd.Assert(hsameExcept(post, pre, i, true, false), "C06 v6 free releases exactly the named block")
			return
		}
		vnd.Cover("double-free")
		vnd.Assert(err != nil, "C06 v6 free of a block that is not outstanding fails")
		vnd.Assert(hsameExcept(post, pre, 0, false, false), "C06 v6 failed free changes nothing")
		return
	}
	vnd.Cover("outside")
	vnd.AssertFinding("C06-v6-free-outside-pool", err != nil, "C06 v6 free of a prefix outside the pool fails")
	vnd.AssertFinding("C06-v6-free-outside-pool", hsameExcept(post, pre, 0, false, false), "C06 v6 free of a prefix outside the pool changes nothing")
}

// VerifH_v6_new: the constructor establishes the invariant (O1).
func VerifH_v6_new() {
	L := vnd.Pick("L", 0, 128)
	size := vnd.Pick("size", 0, 128)
	bb := vnd.Bytes("base", 16)
	pool := net.IPNet{IP: net.IP(bb), Mask: net.CIDRMask(L, 128)}
	if size-L > 12 && size-L < 64 {
		return // pools of 2^13..2^63 blocks: building the bitmap is outside the bound (natively: out of memory)
	}
	a, err := NewBitmapAllocator(pool, size)
	if size < L {
		vnd.Cover("rejected")
		vnd.Assert(err != nil, "C05 v6 constructor rejects allocations larger than the pool")
		return
	}
	if size-L >= 64 {
		vnd.Cover("too-big")
		vnd.Assert(err != nil, "C05 v6 constructor rejects unrepresentable pools")
		return
	}
	vnd.Cover("constructed")
	vnd.Assert(err == nil && a != nil, "C05 v6 constructor accepts the pool")
	if err != nil || a == nil {
		return
	}
	n := 1 << uint(size-L)
	vnd.Assert(a.page == size, "C05 v6 constructor allocation length")
	vnd.Assert(a.bitmap.Len() == uint(n), "C05 v6 constructor capacity is exactly 2^(size-L)")
	w := a.bitmap.Bytes()
	vnd.Assert(len(w) == (n+63)/64, "C05 v6 constructor word count")
	for i := range w {
		vnd.Assert(w[i] == 0, "C04 v6 constructor starts with nothing outstanding")
	}
}
