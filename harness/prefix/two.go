//go:build verif

package prefix

import (
	"net"

	"github.com/coredhcp/coredhcp/internal/vnd"
	"github.com/insomniacslk/dhcp/dhcpv6"
	dhcpIana "github.com/insomniacslk/dhcp/iana"
)

// VerifH_prefix_two (C08/C09): two consecutive messages from an arbitrary
// state - whatever the handler keeps beyond the lease records and the allocator
// bitmap starts at zero in a constructed state and is exercised only by a second
// call. Second message: the same client with a hint-less IA_PD (a renewal of
// what it was just told), or a client never seen before.
func VerifH_prefix_two() {
	// the state is either an arbitrary one built by the harness or the one the
	// real setupPrefix leaves (fresh pool 2001:db8:0:8::/62 cut into /64s): what
	// setup stores besides the pool is only ever seen through the handler it returns
	var w *world
	var handle func(req, resp dhcpv6.DHCPv6) (dhcpv6.DHCPv6, bool)
	if vnd.Pick("viasetup", 0, 1) == 1 {
		h, err := setupPrefix("2001:db8:0:8::/62", "64")
		vnd.Assert(err == nil && h != nil, "C08 a valid pool is accepted")
		if err != nil || h == nil {
			return
		}
		pool := net.IP{0x20, 0x01, 0x0d, 0xb8, 0, 0, 0, 8, 0, 0, 0, 0, 0, 0, 0, 0}
		w = &world{g: geom{62, 64}, n: 4, base: vnd.U128From(pool), client: anyDUID("client")}
		w.key = recordKey(w.client)
		handle = h
		vnd.ClockJump()
	} else {
		w = makeWorld()
		handle = w.h.Handle
	}
	g := w.g
	words := func() []uint64 {
		if w.alloc == nil {
			return nil
		}
		return append([]uint64(nil), w.alloc.VerifWords()...)
	}
	msg1 := &dhcpv6.Message{MessageType: dhcpv6.MessageTypeSolicit}
	msg1.AddOption(dhcpv6.OptClientID(w.client))
	pd1 := &dhcpv6.OptIAPD{IaId: [4]byte{0, 0, 0, 1}}
	if k := vnd.Pick("hk0", 0, 7); k != hintNil || vnd.Pick("hints", 0, 1) == 1 {
		pd1.Options.Add(w.hint(k))
	}
	msg1.AddOption(pd1)
	resp1 := &dhcpv6.Message{MessageType: dhcpv6.MessageTypeAdvertise}
	r1, _ := handle(msg1, resp1)
	vnd.Assert(r1 == dhcpv6.DHCPv6(resp1), "C08 request with a client id is answered and passed on")
	var told []net.IPNet // what the client was told it holds
	for _, o := range resp1.Options.IAPD() {
		for _, p := range o.Options.Prefixes() {
			if p.Prefix == nil || len(p.Prefix.IP) != 16 {
				return
			}
			told = append(told, net.IPNet{IP: append(net.IP(nil), p.Prefix.IP...), Mask: append(net.IPMask(nil), p.Prefix.Mask...)})
		}
	}
	mid := words()

	same := vnd.Pick("second", 0, 1) == 0
	client2 := w.client
	if !same {
		client2 = &dhcpv6.DUIDLL{HWType: dhcpIana.HWTypeEthernet, LinkLayerAddr: net.HardwareAddr{0x06, 0x5e, 0xc0, 0x4d, 0x00, 0x02}}
		vnd.Assume(recordKey(client2) != w.key)
		if w.hasFor && w.h != nil {
			for k := range w.h.Records {
				if k != w.key {
					vnd.Assume(recordKey(client2) != k)
				}
			}
		}
	}
	msg2 := &dhcpv6.Message{MessageType: dhcpv6.MessageTypeRequest}
	msg2.AddOption(dhcpv6.OptClientID(client2))
	msg2.AddOption(&dhcpv6.OptIAPD{IaId: [4]byte{0, 0, 0, 2}})
	resp2 := &dhcpv6.Message{MessageType: dhcpv6.MessageTypeReply}
	r2, _ := handle(msg2, resp2)
	vnd.Assert(r2 == dhcpv6.DHCPv6(resp2), "C08 request with a client id is answered and passed on")
	out := resp2.Options.IAPD()
	vnd.Assert(len(out) == 1, "C08 exactly one IA_PD per requested IA_PD")
	if len(out) != 1 {
		return
	}
	ps := out[0].Options.Prefixes()
	post := words()
	if same {
		vnd.Cover("same-client-renews")
		for _, t := range told {
			found := false
			for _, p := range ps {
				found = found || (p.Prefix != nil && p.Prefix.IP.Equal(t.IP) && maskLen(p.Prefix.Mask) == maskLen(t.Mask))
			}
			vnd.Assert(found, "C09 a hint-less IA_PD is answered with every prefix the client was told it holds in the previous reply")
		}
		if len(told) > 0 && mid != nil {
			same := true
			for i := range post {
				same = vnd.And(same, post[i] == mid[i])
			}
			vnd.Assert(same, "C09 repeating a hint-less request consumes no additional block")
		}
		return
	}
	vnd.Cover("new-client-next")
	for _, p := range ps {
		vnd.Assert(p.Prefix != nil && len(p.Prefix.IP) == 16, "C08 delegated prefix is well-formed")
		if p.Prefix == nil || len(p.Prefix.IP) != 16 {
			return
		}
		in, bi := blockOf(p.Prefix.IP, w.base, g)
		vnd.Assert(in, "C08 delegated prefix lies in the pool")
		vnd.Assume(bi < uint64(w.n))
		if mid != nil {
			vnd.Assert(!hbit(mid, bi), "C08 a new client is delegated a block nobody held after the previous message")
		}
		for _, t := range told {
			_, ti := blockOf(t.IP, w.base, g)
			vnd.Assert(bi != ti, "C08 two clients served one after the other never share a block")
		}
	}
}

// VerifH_prefix_twins (C08): two client identifiers that differ in a single
// field (an unnamed hardware type, the time of a DUID-LLT, an enterprise number,
// one opaque byte, the DUID type with equal payload) are different clients: the
// blocks delegated to them never overlap. Concrete identifiers, the handler the
// real setupPrefix returns.
func VerifH_prefix_twins() {
	h, err := setupPrefix("2001:db8:0:8::/62", "64")
	vnd.Assert(err == nil && h != nil, "C08 a valid pool is accepted")
	if err != nil || h == nil {
		return
	}
	mac := net.HardwareAddr{0x02, 0x00, 0x5e, 0x10, 0x00, 0x01}
	var a, b dhcpv6.DUID
	switch vnd.Pick("twin", 0, 4) {
	case 0:
		a, b = &dhcpv6.DUIDLL{HWType: dhcpIana.HWType(0x0101), LinkLayerAddr: mac}, &dhcpv6.DUIDLL{HWType: dhcpIana.HWType(0x0102), LinkLayerAddr: mac}
	case 1:
		a, b = &dhcpv6.DUIDLLT{HWType: dhcpIana.HWTypeEthernet, Time: 1, LinkLayerAddr: mac}, &dhcpv6.DUIDLLT{HWType: dhcpIana.HWTypeEthernet, Time: 2, LinkLayerAddr: mac}
	case 2:
		a, b = &dhcpv6.DUIDEN{EnterpriseNumber: 9, EnterpriseIdentifier: []byte{1, 2}}, &dhcpv6.DUIDEN{EnterpriseNumber: 10, EnterpriseIdentifier: []byte{1, 2}}
	case 3:
		a, b = &dhcpv6.DUIDOpaque{Type: 200, Data: []byte{1, 2, 3}}, &dhcpv6.DUIDOpaque{Type: 200, Data: []byte{1, 2, 4}}
	case 4:
		a, b = &dhcpv6.DUIDLL{HWType: dhcpIana.HWTypeEthernet, LinkLayerAddr: mac}, &dhcpv6.DUIDLLT{HWType: dhcpIana.HWTypeEthernet, Time: 0, LinkLayerAddr: mac}
	}
	ask := func(d dhcpv6.DUID) []net.IPNet {
		msg := &dhcpv6.Message{MessageType: dhcpv6.MessageTypeSolicit}
		msg.AddOption(dhcpv6.OptClientID(d))
		msg.AddOption(&dhcpv6.OptIAPD{IaId: [4]byte{0, 0, 0, 1}})
		resp := &dhcpv6.Message{MessageType: dhcpv6.MessageTypeAdvertise}
		r, _ := h(msg, resp)
		vnd.Assert(r == dhcpv6.DHCPv6(resp), "C08 request with a client id is answered and passed on")
		var out []net.IPNet
		for _, o := range resp.Options.IAPD() {
			for _, p := range o.Options.Prefixes() {
				if p.Prefix != nil {
					out = append(out, *p.Prefix)
				}
			}
		}
		return out
	}
	pa, pb := ask(a), ask(b)
	vnd.Cover("twins")
	vnd.Assert(len(pa) == 1 && len(pb) == 1, "C08 IA_PD holds a prefix or NoPrefixAvail")
	for _, x := range pa {
		for _, y := range pb {
			vnd.Assert(!x.IP.Equal(y.IP), "C08 blocks delegated to different client identifiers never overlap (identifiers that differ in one field)")
		}
	}
}

// VerifH_prefix_mixed (C09): one Handle call from an arbitrary state in which
// the client holds two prefixes; its single IA_PD names one of them exactly and
// adds an empty hint (nil prefix, or :: with the allocation length). That is a
// renewal of what it holds: the reply carries the two held prefixes and nothing
// else, and no block of the pool is consumed - whichever of the two is named
// (the index of the empty hint and the index of the lease handed back for it
// differ when the second lease is the one named).
func VerifH_prefix_mixed() {
	w := makeWorld()
	vnd.Assume(len(w.own) == 2)
	msg := &dhcpv6.Message{MessageType: dhcpv6.MessageTypeRenew}
	msg.AddOption(dhcpv6.OptClientID(w.client))
	pd := &dhcpv6.OptIAPD{IaId: [4]byte{0, 0, 0, 1}}
	named := w.hint(hintOwn)
	empty := w.hint(hintNil)
	if vnd.Pick("emptykind", 0, 1) == 1 {
		empty = &dhcpv6.OptIAPrefix{Prefix: &net.IPNet{IP: make(net.IP, 16), Mask: nil}}
	}
	if vnd.Pick("emptyfirst", 0, 1) == 1 {
		pd.Options.Add(empty)
		pd.Options.Add(named)
	} else {
		pd.Options.Add(named)
		pd.Options.Add(empty)
	}
	msg.AddOption(pd)
	resp := &dhcpv6.Message{MessageType: dhcpv6.MessageTypeReply}
	r, _ := w.h.Handle(msg, resp)
	vnd.Assert(r == dhcpv6.DHCPv6(resp), "C08 request with a client id is answered and passed on")
	out := resp.Options.IAPD()
	vnd.Assert(len(out) == 1, "C08 exactly one IA_PD per requested IA_PD")
	if len(out) != 1 {
		return
	}
	vnd.Cover("mixed-renewal")
	ps := out[0].Options.Prefixes()
	for _, p := range ps {
		held := false
		for _, o := range w.own {
			held = held || (p.Prefix != nil && p.Prefix.IP.Equal(o.Prefix.IP) && maskLen(p.Prefix.Mask) == maskLen(o.Prefix.Mask))
		}
		vnd.Assert(held, "C09 a renewal naming one held prefix beside an empty hint is answered only with prefixes the client holds")
	}
	for _, o := range w.own {
		found := false
		for _, p := range ps {
			found = found || (p.Prefix != nil && p.Prefix.IP.Equal(o.Prefix.IP) && maskLen(p.Prefix.Mask) == maskLen(o.Prefix.Mask))
		}
		vnd.Assert(found, "C09 a renewal naming one held prefix beside an empty hint returns every prefix the client holds")
	}
	post := w.alloc.VerifWords()
	same := true
	for i := range post {
		same = vnd.And(same, post[i] == w.pre[i])
	}
	vnd.Assert(same, "C09 a renewal naming one held prefix beside an empty hint consumes no additional block")
	vnd.Assert(len(w.h.Records[w.key]) == 2, "C09 a renewal naming one held prefix beside an empty hint leaves the client's record at the prefixes it holds")
}
