//go:build verif

package file

import (
	"github.com/coredhcp/coredhcp/internal/vnd"
	"github.com/fsnotify/fsnotify"
)

// Autorefresh (C10): "a well-formed update eventually replaces the whole
// mapping while a malformed update leaves the previous mapping in force", for
// every sequence of up to three rewrites. The real setup starts the real
// refresh goroutine on a watcher whose event channel the harness owns; the
// goroutine's body runs under vnd.RunGoroutines (engine channel model:
// unbounded FIFO, a receive from an empty channel parks the goroutine).

var (
	watchCh chan fsnotify.Event
	watched []string
	readSeq [][]byte // what successive reads of the lease file return (rewrites between events)
	readN   int
)

func stubNewWatcher() (*fsnotify.Watcher, error) {
	watchCh = make(chan fsnotify.Event, 8)
	w := &fsnotify.Watcher{Events: watchCh}
	watchers = append(watchers, w)
	return w, nil
}

func stubWatcherAdd(w *fsnotify.Watcher, name string) error {
	watched = append(watched, name)
	watcherOf[name] = w
	return nil
}

var (
	watchers  []*fsnotify.Watcher
	watcherOf = map[string]*fsnotify.Watcher{} // file name -> the watcher it was added to
)

// stubReadSeq: the lease file as it is when the refresher gets to read it: the
// generation written before the last event the refresher has taken from the
// channel (later rewrites "have not happened yet"). Counting consumed events
// rather than reads keeps the oracle valid for a refresher that coalesces events.
func stubReadSeq(name string) ([]byte, error) {
	if name == "leases.txt" && readSeq != nil {
		readN++
		consumed := nEvents - len(watchCh)
		if watchCh == nil {
			consumed = 0
		}
		return readSeq[consumed], nil
	}
	return stubReadFile(name)
}

var nEvents int

type fileGen struct {
	text string
	good bool
	keys []string // canonical keys of a well-formed generation
}

func gens(v6 bool) []fileGen {
	ip := func(n string) string {
		if v6 {
			return "2001:db8::" + n
		}
		return "192.0.2." + n
	}
	return []fileGen{
		{"00:00:00:00:00:01 " + ip("1") + "\n", true, []string{"00:00:00:00:00:01"}},
		{"00:00:00:00:00:02 " + ip("2") + "\n00-00-00-00-00-03 " + ip("3") + "\n", true, []string{"00:00:00:00:00:02", "00:00:00:00:00:03"}},
		{"# nobody\n\n", true, nil},
		{"00:00:00:00:00:04 " + ip("4") + "\n00:00:00:00:00:05\n", false, nil},
	}
}

// VerifH_file_watch: the initial file, then 1..3 rewrites each announced by an
// event carrying the Write flag; afterwards the served mapping is that of the
// last well-formed generation.
func VerifH_file_watch() {
	v6 := vnd.Pick("proto", 0, 1) == 1
	g := gens(v6)
	watched, readN, watchCh, nEvents = nil, 0, nil, 0
	watchers, watcherOf = nil, map[string]*fsnotify.Watcher{}
	k := vnd.Pick("rewrites", 1, 3)
	cur := g[0]
	readSeq = [][]byte{[]byte(g[0].text)} // read by setup
	var kinds []int
	for i := 0; i < k; i++ {
		kind := vnd.Pick("rw"+string(rune('0'+i)), 0, 3)
		kinds = append(kinds, kind)
		readSeq = append(readSeq, []byte(g[kind].text))
		if g[kind].good {
			cur = g[kind]
		}
	}
	// the other protocol's table must not be touched by this instance
	installTable(!v6, nil)

	var err error
	if v6 {
		_, err = setup6("leases.txt", "autorefresh")
	} else {
		_, err = setup4("leases.txt", "autorefresh")
	}
	vnd.Assert(err == nil, "C10 a well-formed file loads")
	if err != nil {
		return
	}
	vnd.Assert(len(watched) == 1 && watched[0] == "leases.txt", "C10 autorefresh watches the lease file")
	nEvents = k
	for i := 0; i < k; i++ {
		op := fsnotify.Op(vnd.U32("evop"))
		vnd.Assume(op&fsnotify.Write != 0)
		watchCh <- fsnotify.Event{Name: "leases.txt", Op: op}
	}
	shareTables()
	vnd.RunGoroutines()
	vnd.Unshare()

	vnd.AssertEngine(vnd.HeldLocks() == 0, "C16 file refresher releases the write lock")
	vnd.Cover("refreshed")
	vnd.Assert(readN >= 2, "C10 a rewrite event makes the refresher read the file again")
	t := currentTable(v6)
	is := func(gen fileGen) bool {
		ok := gen.good && len(t) == len(gen.keys)
		for _, key := range gen.keys {
			ok = ok && t[key] != nil
		}
		return ok
	}
	last := g[kinds[k-1]]
	if last.good {
		vnd.Assert(is(last), "C10 a well-formed update replaces the whole mapping, whatever rewrites came before it")
	} else {
		some := is(g[0])
		for _, kind := range kinds {
			some = some || is(g[kind])
		}
		vnd.Assert(some, "C10 a malformed update leaves a previously loaded mapping in force")
		if k == 1 {
			vnd.Assert(is(g[0]), "C10 a malformed update leaves the previous mapping in force")
		}
	}
	_ = cur
	vnd.Assert(len(currentTable(!v6)) == 0, "C10 an instance's refresher touches only its own protocol's table")
}

// VerifH_file_watch2: both protocols configured with autorefresh, each on its
// own file; each file is rewritten once (an event carrying the Write flag on the
// watcher the file was added to). Afterwards each protocol serves its own new
// file - whichever refresher ran first, and however the instances share or do
// not share a watcher.
func VerifH_file_watch2() {
	watched, readN, watchCh, nEvents, readSeq = nil, 0, nil, 0, nil
	watchers, watcherOf = nil, map[string]*fsnotify.Watcher{}
	files = map[string][]byte{
		"v4.txt": []byte("00:00:00:00:00:01 192.0.2.1\n"),
		"v6.txt": []byte("00:00:00:00:00:01 2001:db8::1\n"),
	}
	installTable(false, nil)
	installTable(true, nil)
	var err4, err6 error
	if vnd.Pick("order", 0, 1) == 0 {
		_, err4 = setup4("v4.txt", "autorefresh")
		_, err6 = setup6("v6.txt", "autorefresh")
	} else {
		_, err6 = setup6("v6.txt", "autorefresh")
		_, err4 = setup4("v4.txt", "autorefresh")
	}
	vnd.Assert(err4 == nil && err6 == nil, "C10 both instances load their file")
	if err4 != nil || err6 != nil {
		return
	}
	w4, w6 := watcherOf["v4.txt"], watcherOf["v6.txt"]
	vnd.Assert(w4 != nil && w6 != nil, "C10 autorefresh watches the lease file")
	if w4 == nil || w6 == nil {
		return
	}
	// rewrite one or both files, then deliver the events
	which := vnd.Pick("rewritten", 1, 3) // 1: v4 only, 2: v6 only, 3: both
	if which&1 != 0 {
		files["v4.txt"] = []byte("00:00:00:00:00:02 192.0.2.2\n00:00:00:00:00:03 192.0.2.3\n")
		w4.Events <- fsnotify.Event{Name: "v4.txt", Op: fsnotify.Write}
	}
	if which&2 != 0 {
		files["v6.txt"] = []byte("00:00:00:00:00:04 2001:db8::4\n")
		w6.Events <- fsnotify.Event{Name: "v6.txt", Op: fsnotify.Write}
	}
	vnd.RunGoroutines()
	vnd.Cover("dual-refresh")
	t4, t6 := currentTable(false), currentTable(true)
	want4 := (which&1 != 0 && len(t4) == 2 && t4["00:00:00:00:00:02"] != nil && t4["00:00:00:00:00:03"] != nil) ||
		(which&1 == 0 && len(t4) == 1 && t4["00:00:00:00:00:01"] != nil)
	want6 := (which&2 != 0 && len(t6) == 1 && t6["00:00:00:00:00:04"] != nil) ||
		(which&2 == 0 && len(t6) == 1 && t6["00:00:00:00:00:01"] != nil)
	vnd.Assert(want4, "C10 a well-formed update of the DHCPv4 file replaces the DHCPv4 mapping (dual-stack with autorefresh)")
	vnd.Assert(want6, "C10 a well-formed update of the DHCPv6 file replaces the DHCPv6 mapping (dual-stack with autorefresh)")
}
