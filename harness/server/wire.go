//go:build verif

package server

import (
	"errors"
	"net"

	"github.com/coredhcp/coredhcp/handler"
	"github.com/coredhcp/coredhcp/internal/vnd"
	"github.com/coredhcp/coredhcp/plugins/dns"
	"github.com/coredhcp/coredhcp/plugins/file"
	"github.com/coredhcp/coredhcp/plugins/leasetime"
	"github.com/coredhcp/coredhcp/plugins/netmask"
	"github.com/coredhcp/coredhcp/plugins/prefix"
	"github.com/coredhcp/coredhcp/plugins/router"
	"github.com/coredhcp/coredhcp/plugins/serverid"
	"github.com/insomniacslk/dhcp/dhcpv4"
	"github.com/insomniacslk/dhcp/dhcpv6"
	"github.com/insomniacslk/dhcp/iana"
	"golang.org/x/net/ipv4"
	"golang.org/x/net/ipv6"
)

// VerifH_wire4_free: the real dhcpv4.FromBytes on a datagram with a symbolic
// header and k free option bytes: no panic, the result has the shape the
// HandleMsg4 harness assumes of the parser, nothing aliases the receive buffer.
func VerifH_wire4_free() {
	k := vnd.Pick("optbytes", 0, 8)
	short := vnd.Pick("truncated", 0, 1) == 1
	n := 240 + k
	if short {
		n = vnd.Pick("shortlen", 0, 239)
	}
	buf := vnd.Bytes("datagram", n)
	// the two NUL searches over sname/file would fork 65 x 129 ways on fields no plugin reads
	if n > 44 {
		vnd.Assume(buf[44] == 0)
	}
	if n > 108 {
		vnd.Assume(buf[108] == 0)
	}
	realCodec = true
	req, err := dhcpv4.FromBytes(buf)
	realCodec = false
	if err != nil {
		vnd.Cover("parse-error")
		vnd.Assert(req == nil, "C01 a parse error comes without a message")
		return
	}
	vnd.Cover("parsed")
	vnd.Assert(!short, "C01 a truncated header is a parse error")
	vnd.Assert(len(req.ClientIPAddr) == 4 && len(req.YourIPAddr) == 4 && len(req.ServerIPAddr) == 4 && len(req.GatewayIPAddr) == 4, "C01 parsed address fields are 4 bytes")
	vnd.Assert(len(req.ClientHWAddr) <= 16 && cap(req.ClientHWAddr) >= 16, "C01 parsed chaddr is at most 16 bytes over a 16-byte array")
	vnd.Assert(req.Options != nil, "C01 parsed options map exists")
	vnd.AssertEngine(!vnd.SharesMemory(req, buf), "C16 the parsed DHCPv4 message does not alias the receive buffer")
}

// VerifH_wire6_free: the real dhcpv6.FromBytes on k symbolic bytes.
func VerifH_wire6_free() {
	k := vnd.Pick("bytes", 0, 12)
	buf := vnd.Bytes("datagram", k)
	realCodec = true
	d, err := dhcpv6.FromBytes(buf)
	realCodec = false
	if err != nil {
		vnd.Cover("parse-error")
		return
	}
	vnd.Cover("parsed")
	vnd.Assert(d != nil, "C01 a parsed DHCPv6 datagram is a message")
	if d == nil {
		return
	}
	// Observation, not an assertion: the library's Domain Search List, FQDN and NTP option
	// parsers keep a sub-slice of the datagram (rfc1035label.Labels.original). The receive
	// buffer discipline is therefore decided dynamically: the engine flags every READ of a
	// buffer after bufpool.Put on the paths of the HandleMsg harnesses (use-after-recycle).
	if vnd.SharesMemory(d, buf) {
		vnd.Cover("aliases-buffer")
	}
	if m, ok := d.(*dhcpv6.Message); ok {
		for _, pd := range m.Options.IAPD() {
			for _, p := range pd.Options.Prefixes() {
				vnd.Assert(p.Prefix == nil || len(p.Prefix.IP) == 16, "C01 a parsed IAPrefix has no prefix or a 16-byte address")
			}
		}
	}
}

// ---- end to end: wire bytes -> real parser -> real chain -> capture ----

var e2eFiles map[string][]byte

func stubReadFileE2E(name string) ([]byte, error) {
	b, ok := e2eFiles[name]
	if !ok {
		return nil, errors.New("no such file")
	}
	return b, nil
}

func must4(h handler.Handler4, err error) handler.Handler4 {
	vnd.Assume(err == nil && h != nil)
	return h
}
func must6(h handler.Handler6, err error) handler.Handler6 {
	vnd.Assume(err == nil && h != nil)
	return h
}

// VerifH_e2e4: skeleton datagrams (option codes and lengths concrete, every
// value byte symbolic) through the real parser and the real chain
// server_id -> file -> netmask -> router -> dns -> lease_time.
func VerifH_e2e4() {
	sent = nil
	e2eFiles = map[string][]byte{"leases4.txt": []byte("00:11:22:33:44:55 192.0.2.10\n")}
	hs := []handler.Handler4{
		must4(serverid.Plugin.Setup4("192.0.2.1")), must4(file.Plugin.Setup4("leases4.txt")), must4(netmask.Plugin.Setup4("255.255.255.0")),
		must4(router.Plugin.Setup4("192.0.2.1")), must4(dns.Plugin.Setup4("192.0.2.53", "192.0.2.54")), must4(leasetime.Plugin.Setup4("3600s")),
	}
	l := &listener4{Interface: net.Interface{Index: 3}, handlers: hs}
	hw := vnd.Bytes("chaddr", 6)
	if vnd.Pick("listed", 0, 1) == 1 {
		hw = []byte{0x00, 0x11, 0x22, 0x33, 0x44, 0x55}
	}
	req := &dhcpv4.DHCPv4{OpCode: dhcpv4.OpcodeType(vnd.U8("op")), HWType: iana.HWTypeEthernet, ClientHWAddr: net.HardwareAddr(hw), Flags: vnd.U16("flags"), Options: dhcpv4.Options{},
		ClientIPAddr: net.IP(vnd.Bytes("ciaddr", 4)), YourIPAddr: make(net.IP, 4), ServerIPAddr: net.IP(vnd.Bytes("siaddr", 4)), GatewayIPAddr: net.IP(vnd.Bytes("giaddr", 4))}
	copy(req.TransactionID[:], vnd.Bytes("xid", 4))
	skel := vnd.Pick("skeleton", 0, 3)
	req.Options[53] = vnd.Bytes("msgtype", 1)
	if skel >= 1 {
		req.Options[55] = vnd.Bytes("prl", 3)
		req.Options[61] = vnd.Bytes("clientid", 4)
	}
	if skel >= 2 {
		req.Options[50] = vnd.Bytes("requested", 4)
		req.Options[54] = vnd.Bytes("serverid", 4)
		req.Options[12] = vnd.Bytes("hostname", 2)
	}
	if skel >= 3 {
		req.Options[82] = vnd.Bytes("relayinfo", 4)
		req.Options[116] = vnd.Bytes("autoconf", 1)
	}
	buf := req.ToBytes()

	l.HandleMsg4(buf, &ipv4.ControlMessage{IfIndex: 3}, &net.UDPAddr{IP: net.IP{192, 0, 2, 99}, Port: 68})

	vnd.Cover("handled")
	vnd.Assert(len(sent) <= 1, "C01 at most one reply per datagram")
	if len(sent) == 1 {
		vnd.Cover("replied")
		if !sent[0].l2 {
			vnd.Assert(len(sent[0].bytes) >= 240 && sent[0].bytes[0] == 2, "C11 what leaves is a BOOTREPLY")
		}
	}
}

// VerifH_e2e6: skeleton DHCPv6 datagrams through the real parser and the real
// chain server_id -> prefix -> dns.
func VerifH_e2e6() {
	sent = nil
	hs := []handler.Handler6{
		must6(serverid.Plugin.Setup6("LL", "00:de:ad:be:ef:00")), must6(prefix.Plugin.Setup6("2001:db8::/60", "62")), must6(dns.Plugin.Setup6("2001:db8::53")),
	}
	l := &listener6{Interface: net.Interface{Index: 0}, handlers: hs}
	msg := &dhcpv6.Message{MessageType: dhcpv6.MessageType(vnd.U8("msgtype"))}
	copy(msg.TransactionID[:], vnd.Bytes("xid", 3))
	msg.AddOption(dhcpv6.OptClientID(&dhcpv6.DUIDLL{HWType: iana.HWType(vnd.U16("hw")), LinkLayerAddr: net.HardwareAddr(vnd.Bytes("cmac", 6))}))
	skel := vnd.Pick("skeleton", 0, 3)
	if skel >= 1 {
		pd := &dhcpv6.OptIAPD{}
		copy(pd.IaId[:], vnd.Bytes("iaid", 4))
		if skel >= 2 {
			// an IAPrefix with symbolic prefix length byte and address
			pl := vnd.Pick("plen", 0, 2)
			var p *net.IPNet
			switch pl {
			case 1:
				p = &net.IPNet{IP: net.IP(vnd.Bytes("hint", 16)), Mask: net.CIDRMask(62, 128)}
			case 2:
				p = &net.IPNet{IP: net.IP(vnd.Bytes("hint", 16)), Mask: net.CIDRMask(64, 128)}
			}
			pd.Options.Add(&dhcpv6.OptIAPrefix{Prefix: p})
		}
		msg.AddOption(pd)
	}
	if skel >= 3 {
		msg.AddOption(dhcpv6.OptServerID(&dhcpv6.DUIDLL{HWType: iana.HWTypeEthernet, LinkLayerAddr: net.HardwareAddr(vnd.Bytes("smac", 6))}))
		msg.AddOption(dhcpv6.OptRequestedOption(dhcpv6.OptionDNSRecursiveNameServer))
	}
	var d dhcpv6.DHCPv6 = msg
	for i, n := 0, vnd.Pick("relay", 0, 2); i < n; i++ {
		r, err := dhcpv6.EncapsulateRelay(d, dhcpv6.MessageTypeRelayForward, net.IP(vnd.Bytes("link", 16)), net.IP(vnd.Bytes("peer", 16)))
		vnd.Assume(err == nil)
		d = r
	}
	buf := d.ToBytes()

	l.HandleMsg6(buf, &ipv6.ControlMessage{IfIndex: 2}, &net.UDPAddr{IP: net.IP(vnd.Bytes("src", 16)), Port: 546})

	vnd.Cover("handled")
	vnd.Assert(len(sent) <= 1, "C01 at most one reply per datagram")
	vnd.AssertEngine(vnd.HeldLocks() == 0, "C01 no lock is left held")
	if len(sent) == 1 {
		vnd.Cover("replied")
	}
}
