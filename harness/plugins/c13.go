//go:build verif

package plugins

import (
	"errors"

	"github.com/coredhcp/coredhcp/config"
	"github.com/coredhcp/coredhcp/handler"
	"github.com/coredhcp/coredhcp/internal/vnd"
	"github.com/insomniacslk/dhcp/dhcpv4"
	"github.com/insomniacslk/dhcp/dhcpv6"
)

var (
	setupLog []string
	tagLog   []int
)

func mk4(tag int) handler.Handler4 {
	return func(req, resp *dhcpv4.DHCPv4) (*dhcpv4.DHCPv4, bool) { tagLog = append(tagLog, tag); return resp, false }
}
func mk6(tag int) handler.Handler6 {
	return func(req, resp dhcpv6.DHCPv6) (dhcpv6.DHCPv6, bool) { tagLog = append(tagLog, tag); return resp, false }
}

// kinds: 0 v4-only, 1 v6-only, 2 dual, 3 failing setup, 4 nil handler, 5 dual (another), 6 unknown name
var kindNames = []string{"only4", "only6", "dual", "failing", "nilhandler", "dual2", "nosuchplugin"}

func register() {
	RegisteredPlugins = make(map[string]*Plugin)
	s4 := func(name string, tag int, h bool, fail bool) SetupFunc4 {
		return func(args ...string) (handler.Handler4, error) {
			setupLog = append(setupLog, "4:"+name)
			for _, a := range args {
				setupLog = append(setupLog, a)
			}
			if fail {
				return mk4(tag), errors.New("setup failed")
			}
			if !h {
				return nil, nil
			}
			return mk4(tag), nil
		}
	}
	s6 := func(name string, tag int, h bool, fail bool) SetupFunc6 {
		return func(args ...string) (handler.Handler6, error) {
			setupLog = append(setupLog, "6:"+name)
			for _, a := range args {
				setupLog = append(setupLog, a)
			}
			if fail {
				return mk6(tag), errors.New("setup failed")
			}
			if !h {
				return nil, nil
			}
			return mk6(tag), nil
		}
	}
	RegisterPlugin(&Plugin{Name: "only4", Setup4: s4("only4", 0, true, false)})
	RegisterPlugin(&Plugin{Name: "only6", Setup6: s6("only6", 1, true, false)})
	RegisterPlugin(&Plugin{Name: "dual", Setup4: s4("dual", 2, true, false), Setup6: s6("dual", 2, true, false)})
	RegisterPlugin(&Plugin{Name: "failing", Setup4: s4("failing", 3, true, true), Setup6: s6("failing", 3, true, true)})
	RegisterPlugin(&Plugin{Name: "nilhandler", Setup4: s4("nilhandler", 4, false, false), Setup6: s6("nilhandler", 4, false, false)})
	RegisterPlugin(&Plugin{Name: "dual2", Setup4: s4("dual2", 5, true, false), Setup6: s6("dual2", 5, true, false)})
}

// expect computes, for one protocol, the handlers LoadPlugins must return.
func expect(kinds []int, v6 bool) (tags []int, calls []string, fails bool) {
	proto := "4:"
	if v6 {
		proto = "6:"
	}
	for i, k := range kinds {
		if k == 6 {
			return nil, calls, true
		}
		supports := (k != 0 || !v6) && (k != 1 || v6)
		if !supports {
			continue
		}
		calls = append(calls, proto+kindNames[k], "arg"+string(rune('0'+i)))
		if k == 3 || k == 4 {
			return nil, calls, true
		}
		tags = append(tags, k)
	}
	return tags, calls, false
}

// VerifH_loadplugins: the handlers instantiated are exactly the listed plugins
// that support the protocol, in file order; unknown names, failing setups and
// nil handlers abort start-up (C13).
func VerifH_loadplugins() {
	setupLog, tagLog = nil, nil
	register()
	conf := &config.Config{}
	var k4, k6 []int
	has4, has6 := vnd.Pick("server4", 0, 1) == 1, vnd.Pick("server6", 0, 1) == 1
	if has4 {
		conf.Server4 = &config.ServerConfig{}
		for i, n := 0, vnd.Pick("n4", 0, 5); i < n; i++ {
			k := vnd.Pick("k4"+string(rune('0'+i)), 0, 6)
			k4 = append(k4, k)
			conf.Server4.Plugins = append(conf.Server4.Plugins, config.PluginConfig{Name: kindNames[k], Args: []string{"arg" + string(rune('0'+i))}})
		}
	}
	if has6 {
		conf.Server6 = &config.ServerConfig{}
		for i, n := 0, vnd.Pick("n6", 0, 5); i < n; i++ {
			k := vnd.Pick("k6"+string(rune('0'+i)), 0, 6)
			k6 = append(k6, k)
			conf.Server6.Plugins = append(conf.Server6.Plugins, config.PluginConfig{Name: kindNames[k], Args: []string{"arg" + string(rune('0'+i))}})
		}
	}

	h4, h6, err := LoadPlugins(conf)

	if !has4 && !has6 {
		vnd.Cover("no-protocol")
		vnd.Assert(err != nil, "C13 no protocol section is an error")
		return
	}
	t6, c6, f6 := expect(k6, true)
	t4, c4, f4 := expect(k4, false)
	if !has6 {
		t6, c6, f6 = nil, nil, false
	}
	if !has4 {
		t4, c4, f4 = nil, nil, false
	}
	if f6 || f4 {
		vnd.Cover("rejected")
		vnd.Assert(err != nil, "C13 an unknown plugin, a failing setup or a nil handler aborts start-up")
		vnd.Assert(h4 == nil && h6 == nil, "C13 no handlers are returned with an error")
		return
	}
	vnd.Cover("loaded")
	vnd.Assert(err == nil, "C13 a configuration of known plugins loads")
	// setup functions were called once each, in file order, with their arguments (DHCPv6 first)
	want := append(append([]string(nil), c6...), c4...)
	vnd.Assert(len(setupLog) == len(want), "C13 every listed plugin that supports the protocol is set up exactly once")
	if len(setupLog) == len(want) {
		for i := range want {
			vnd.Assert(setupLog[i] == want[i], "C13 plugins are set up in file order with their arguments")
		}
	}
	tagLog = nil
	for _, h := range h4 {
		h(nil, nil)
	}
	vnd.Assert(len(tagLog) == len(t4), "C13 the DHCPv4 handlers are exactly the listed plugins that support DHCPv4")
	if len(tagLog) == len(t4) {
		for i := range t4 {
			vnd.Assert(tagLog[i] == t4[i], "C13 the DHCPv4 handlers are in file order")
		}
	}
	tagLog = nil
	for _, h := range h6 {
		h(nil, nil)
	}
	vnd.Assert(len(tagLog) == len(t6), "C13 the DHCPv6 handlers are exactly the listed plugins that support DHCPv6")
	if len(tagLog) == len(t6) {
		for i := range t6 {
			vnd.Assert(tagLog[i] == t6[i], "C13 the DHCPv6 handlers are in file order")
		}
	}
}
