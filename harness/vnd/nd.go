//go:build verif

// Package vnd is the nondeterminism / assertion API of the verification
// harnesses. The symbolic engine (gosymex) treats every function here as an
// intrinsic: draws become solver variables, Assert becomes a query. Natively
// (replay of a solver model against the real build) the draws are read from
// the replay file named by VERIF_REPLAY and Assert panics with its label.
package vnd

import (
	"encoding/json"
	"fmt"
	"math/big"
	"math/bits"
	"os"
	"reflect"
	"strings"
	"sync"
)

type drawRec struct {
	Label string   `json:"label"`
	Kind  string   `json:"kind"`
	Vals  []string `json:"vals"`
}

type replayFile struct {
	Harness string         `json:"harness"`
	Picks   map[string]int `json:"picks"`
	Draws   []drawRec      `json:"draws"`
}

var (
	mu     sync.Mutex
	rf     *replayFile
	next   int
	obsOut []string
)

// Failure is the panic value of a violated assertion or a replay problem.
type Failure struct {
	Kind  string // "assert", "assume", "desync"
	Label string
}

func (f Failure) Error() string { return f.Kind + ": " + f.Label }

// Load reads the replay file (called by the generated replay test).
func Load(path string) (string, error) {
	b, err := os.ReadFile(path)
	if err != nil {
		return "", err
	}
	var r replayFile
	if err := json.Unmarshal(b, &r); err != nil {
		return "", err
	}
	rf, next, obsOut = &r, 0, nil
	clockQ = nil
	for _, d := range r.Draws {
		if d.Kind == "Now" || d.Kind == "Mono" {
			clockQ = append(clockQ, d)
		}
	}
	return r.Harness, nil
}

// clockQ holds the clock readings chosen by the solver, in reading order; the
// replay build injects them into time.Now / time.Since / time.Until for callers
// inside the repository (clock_native.go).
var clockQ []drawRec

func nextClock(kind string) ([]uint64, bool) {
	mu.Lock()
	defer mu.Unlock()
	if len(clockQ) == 0 || clockQ[0].Kind != kind {
		return nil, false
	}
	d := clockQ[0]
	clockQ = clockQ[1:]
	out := make([]uint64, len(d.Vals))
	for i, h := range d.Vals {
		var b big.Int
		b.SetString(h, 16)
		out[i] = b.Uint64()
	}
	return out, true
}

// Observations returns what Observe recorded during the native run.
func Observations() []string { return obsOut }

func draw(label, kind string, n int) []uint64 {
	mu.Lock()
	defer mu.Unlock()
	if rf == nil {
		panic(Failure{"desync", "no replay file loaded (native run outside replay)"})
	}
	// clock readings are consumed by the clock hooks, not by draws
	for next < len(rf.Draws) && (rf.Draws[next].Kind == "Now" || rf.Draws[next].Kind == "Mono") {
		next++
	}
	if next >= len(rf.Draws) {
		panic(Failure{"desync", "replay file exhausted at " + label})
	}
	d := rf.Draws[next]
	next++
	if d.Label != label || d.Kind != kind || len(d.Vals) != n {
		panic(Failure{"desync", fmt.Sprintf("want %s/%s/%d, file has %s/%s/%d", label, kind, n, d.Label, d.Kind, len(d.Vals))})
	}
	out := make([]uint64, n)
	for i, h := range d.Vals {
		var b big.Int
		b.SetString(h, 16)
		out[i] = b.Uint64()
	}
	return out
}

func Symbolic() bool          { return false }
func U8(label string) uint8   { return uint8(draw(label, "U8", 1)[0]) }
func U16(label string) uint16 { return uint16(draw(label, "U16", 1)[0]) }
func U32(label string) uint32 { return uint32(draw(label, "U32", 1)[0]) }
func U64(label string) uint64 { return draw(label, "U64", 1)[0] }
func Int(label string) int    { return int(draw(label, "Int", 1)[0]) }
func Bool(label string) bool  { return draw(label, "Bool", 1)[0] != 0 }

func Bytes(label string, n int) []byte {
	v := draw(label, "Bytes", n)
	if n == 0 {
		return nil
	}
	out := make([]byte, n)
	for i := range out {
		out[i] = byte(v[i])
	}
	return out
}

func U64s(label string, n int) []uint64 {
	v := draw(label, "U64s", n)
	if n == 0 {
		return nil
	}
	return v
}

// Range is a symbolic int with lo <= v <= hi assumed.
func Range(label string, lo, hi int) int {
	v := int(draw(label, "Range", 1)[0])
	if v < lo || v > hi {
		panic(Failure{"desync", "Range value outside bounds: " + label})
	}
	return v
}

// Pick is concrete on every path: preset by the task grid or case-split.
func Pick(label string, lo, hi int) int {
	mu.Lock()
	defer mu.Unlock()
	if rf == nil {
		panic(Failure{"desync", "no replay file loaded"})
	}
	v, ok := rf.Picks[label]
	if !ok {
		panic(Failure{"desync", "no pick for " + label})
	}
	return v
}

func Assume(c bool) {
	if !c {
		panic(Failure{"assume", "assumption false under the replayed model"})
	}
}

// labelPrefix restricts which assertions are live natively, exactly as in the
// engine: a check discharges the labels of its own property only.
var labelPrefix = os.Getenv("VERIF_LABEL_PREFIX")

func live(label string) bool {
	return labelPrefix == "" || strings.HasPrefix(label, labelPrefix+" ") || strings.HasPrefix(label, "SUMMARY ")
}

func Assert(c bool, label string) {
	if !c && live(label) {
		panic(Failure{"assert", label})
	}
}

// AssertFinding is an Assert that isolates one anticipated defect class; the
// engine matches id against known_findings.json.
func AssertFinding(id string, c bool, label string) {
	if !c && live(label) {
		panic(Failure{"assert", label})
	}
}

func Cover(label string) {}

// HeldLocks is the number of mutexes the current path holds (engine only).
func HeldLocks() int { return 0 }

// CriticalSections is the number of Lock/RLock calls made so far on the path (engine only).
func CriticalSections() int { return 0 }

// Share marks the object graph reachable from root as shared state for the
// lockset log (engine only).
func Share(name string, root any) {}

// MapScans is the number of range/len operations on maps so far (engine only).
func MapScans() int { return 0 }

// Observe records values so that the engine's prediction can be compared with
// the native run.
func Observe(label string, vals ...any) {
	parts := make([]string, len(vals))
	for i, v := range vals {
		parts[i] = render(v)
	}
	mu.Lock()
	obsOut = append(obsOut, label+"="+strings.Join(parts, ","))
	mu.Unlock()
}

func render(v any) string {
	if v == nil {
		return "nil"
	}
	rv := reflect.ValueOf(v)
	switch rv.Kind() {
	case reflect.Bool:
		if rv.Bool() {
			return "true"
		}
		return "false"
	case reflect.Int, reflect.Int8, reflect.Int16, reflect.Int32, reflect.Int64:
		w := rv.Type().Bits()
		u := uint64(rv.Int())
		if w < 64 {
			u &= (1 << uint(w)) - 1
		}
		return fmt.Sprintf("%x", u)
	case reflect.Uint, reflect.Uint8, reflect.Uint16, reflect.Uint32, reflect.Uint64, reflect.Uintptr:
		return fmt.Sprintf("%x", rv.Uint())
	case reflect.String:
		s := rv.String()
		if len(s) == 0 {
			return "[]"
		}
		return fmt.Sprintf("[%x]", s)
	case reflect.Slice:
		if rv.IsNil() {
			return "nil"
		}
		if rv.Len() == 0 {
			return "[]"
		}
		if rv.Type().Elem().Kind() == reflect.Uint8 {
			return fmt.Sprintf("[%x]", rv.Bytes())
		}
	case reflect.Ptr, reflect.Map, reflect.Func, reflect.Interface:
		if rv.IsNil() {
			return "nil"
		}
		return "ptr"
	}
	return rv.Type().String()
}

// U128 is an unsigned 128-bit integer for reference arithmetic; in the engine
// it is one (_ BitVec 128) term.
type U128 struct{ Hi, Lo uint64 }

func U128From(b []byte) U128 {
	var r U128
	for i := 0; i < 8; i++ {
		r.Hi = r.Hi<<8 | uint64(b[i])
		r.Lo = r.Lo<<8 | uint64(b[8+i])
	}
	return r
}
func U128FromU64(x uint64) U128 { return U128{0, x} }
func U128Sub(a, b U128) U128 {
	lo, br := bits.Sub64(a.Lo, b.Lo, 0)
	hi, _ := bits.Sub64(a.Hi, b.Hi, br)
	return U128{hi, lo}
}
func U128Add(a, b U128) U128 {
	lo, c := bits.Add64(a.Lo, b.Lo, 0)
	hi, _ := bits.Add64(a.Hi, b.Hi, c)
	return U128{hi, lo}
}
func U128Less(a, b U128) bool { return a.Hi < b.Hi || (a.Hi == b.Hi && a.Lo < b.Lo) }
func U128Eq(a, b U128) bool   { return a == b }
func U128Lshr(a U128, n uint) U128 {
	switch {
	case n == 0:
		return a
	case n >= 128:
		return U128{}
	case n >= 64:
		return U128{0, a.Hi >> (n - 64)}
	}
	return U128{a.Hi >> n, a.Lo>>n | a.Hi<<(64-n)}
}
func U128Shl(a U128, n uint) U128 {
	switch {
	case n == 0:
		return a
	case n >= 128:
		return U128{}
	case n >= 64:
		return U128{a.Lo << (n - 64), 0}
	}
	return U128{a.Hi<<n | a.Lo>>(64-n), a.Lo << n}
}
func U128AddOverflows(a, b U128) bool {
	lo, c := bits.Add64(a.Lo, b.Lo, 0)
	_ = lo
	_, c2 := bits.Add64(a.Hi, b.Hi, c)
	return c2 != 0
}

// U128ShlOverflows reports whether a << n loses set bits.
func U128ShlOverflows(a U128, n uint) bool {
	if n == 0 {
		return false
	}
	if n >= 128 {
		return a != U128{}
	}
	return U128Lshr(a, 128-n) != U128{}
}
func U128And(a, b U128) U128 { return U128{a.Hi & b.Hi, a.Lo & b.Lo} }
func U128Not(a U128) U128    { return U128{^a.Hi, ^a.Lo} }
func U128Bytes(a U128) []byte {
	out := make([]byte, 16)
	for i := 0; i < 8; i++ {
		out[i] = byte(a.Hi >> (56 - 8*uint(i)))
		out[8+i] = byte(a.Lo >> (56 - 8*uint(i)))
	}
	return out
}

// And, Or: non-short-circuit boolean connectives (no path fork in the engine).
func And(a, b bool) bool { return a && b }
func Or(a, b bool) bool  { return a || b }
func Implies(a, b bool) bool { return !a || b }

// Ite64 etc.: if-then-else without a fork.
func Ite64(c bool, a, b uint64) uint64 {
	if c {
		return a
	}
	return b
}
func Ite8(c bool, a, b uint8) uint8 {
	if c {
		return a
	}
	return b
}
func IteInt(c bool, a, b int) int {
	if c {
		return a
	}
	return b
}

// RefTZ64 is the bit-scan definition of trailing-zero count (64 for zero); in
// the engine it is the very term used as the summary of bits.TrailingZeros64.
func RefTZ64(x uint64) int {
	for i := 0; i < 64; i++ {
		if x>>uint(i)&1 == 1 {
			return i
		}
	}
	return 64
}

// ClockJump lets an arbitrary amount of time pass before the next clock read
// (the engine otherwise assumes consecutive reads are less than an hour apart).
func ClockJump() {}

// SharesMemory reports whether anything reachable from root refers to the
// backing array of buf (decided on the engine's heap graph; natively false).
func SharesMemory(root any, buf []byte) bool { return false }

// Unshare ends the lockset logging started by Share (engine only).
func Unshare() {}

// Acquisitions is the number of times the path has locked (Lock or RLock) the
// mutex mu points to (engine only; natively 0).
func Acquisitions(mu any) int { return 0 }

// AssertEngine is an assertion about one of the engine's models (held locks,
// critical sections, the heap graph); it has no native counterpart and a
// violation is reported without native replay.
func AssertEngine(c bool, label string) {}

// RunGoroutines runs, one after the other and each until it returns or blocks
// forever, the goroutines started by go statements met so far (engine only: the
// engine does not run a goroutine at its go statement; natively they run by
// themselves).
func RunGoroutines() {}
