package main

import (
	"reflect"
	"fmt"
	"go/token"
	"go/types"
	"math/big"

	"golang.org/x/tools/go/ssa"
)

func (in *Interp) binop(st *State, op token.Token, a, b Value, t types.Type, pos token.Pos) Value {
	if pa, ok := a.(Poison); ok {
		return pa
	}
	if pb, ok := b.(Poison); ok {
		return pb
	}
	switch op {
	case token.EQL:
		return in.valueEq(st, a, b)
	case token.NEQ:
		return in.tf.LNot(in.valueEq(st, a, b))
	}
	if isString(t) {
		as, bs := a.(Slice), b.(Slice)
		switch op {
		case token.ADD:
			e := make([]Value, 0, as.Len+bs.Len)
			for i := 0; i < as.Len; i++ {
				e = append(e, in.elem(st, as, i))
			}
			for i := 0; i < bs.Len; i++ {
				e = append(e, in.elem(st, bs, i))
			}
			if len(e) == 0 {
				return Slice{Obj: -1, Str: true}
			}
			id := st.alloc(Array{E: e}, "strcat")
			return Slice{Obj: id, Len: len(e), Cap: len(e), Str: true}
		case token.LSS, token.LEQ, token.GTR, token.GEQ:
			c := in.bytesCompare(st, as, bs)
			z := in.tf.ConstI(64, 0)
			switch op {
			case token.LSS:
				return in.tf.Cmp("bvslt", c, z)
			case token.LEQ:
				return in.tf.Cmp("bvsle", c, z)
			case token.GTR:
				return in.tf.Cmp("bvslt", z, c)
			default:
				return in.tf.Cmp("bvsle", z, c)
			}
		}
		return Poison{"string op " + op.String()}
	}
	x, okx := a.(*Term)
	y, oky := b.(*Term)
	if !okx || !oky {
		return Poison{fmt.Sprintf("binop %s on %T,%T", op, a, b)}
	}
	if isFloat(t) {
		return Poison{"float arithmetic"}
	}
	w, sgn, _ := intWidth(t)
	tf := in.tf
	if isBool(t) {
		switch op {
		case token.AND, token.LAND:
			return tf.LAnd(x, y)
		case token.OR, token.LOR:
			return tf.LOr(x, y)
		}
	}
	switch op {
	case token.ADD:
		return tf.Bin("bvadd", x, y)
	case token.SUB:
		return tf.Bin("bvsub", x, y)
	case token.MUL:
		return tf.Bin("bvmul", x, y)
	case token.AND:
		return tf.Bin("bvand", x, y)
	case token.OR:
		return tf.Bin("bvor", x, y)
	case token.XOR:
		return tf.Bin("bvxor", x, y)
	case token.AND_NOT:
		return tf.Bin("bvand", x, tf.Not(y))
	case token.QUO, token.REM:
		if in.decide(st, tf.Cmp("=", y, tf.ConstU(w, 0))) {
			in.goPanic(st, "integer divide by zero", pos, nil)
		}
		o := map[bool]map[token.Token]string{true: {token.QUO: "bvsdiv", token.REM: "bvsrem"}, false: {token.QUO: "bvudiv", token.REM: "bvurem"}}[sgn][op]
		return tf.Bin(o, x, y)
	case token.SHL, token.SHR:
		sop := "bvshl"
		if op == token.SHR {
			sop = "bvlshr"
			if sgn {
				sop = "bvashr"
			}
		}
		if y.W <= x.W {
			return tf.Bin(sop, x, tf.ZExt(x.W, y))
		}
		big := tf.Cmp("bvule", tf.ConstU(y.W, uint64(x.W)), y)
		inr := tf.Bin(sop, x, tf.Extract(x.W-1, 0, y))
		var out *Term
		if sop == "bvashr" {
			out = tf.Bin("bvashr", x, tf.ConstU(x.W, uint64(x.W-1)))
		} else {
			out = tf.ConstU(x.W, 0)
		}
		return tf.Ite(big, out, inr)
	case token.LSS, token.LEQ, token.GTR, token.GEQ:
		lt, le := "bvult", "bvule"
		if sgn {
			lt, le = "bvslt", "bvsle"
		}
		switch op {
		case token.LSS:
			return tf.Cmp(lt, x, y)
		case token.LEQ:
			return tf.Cmp(le, x, y)
		case token.GTR:
			return tf.Cmp(lt, y, x)
		default:
			return tf.Cmp(le, y, x)
		}
	}
	return Poison{"binop " + op.String()}
}

// bytesCompare returns a 64-bit term -1/0/1 for the lexicographic comparison.
func (in *Interp) bytesCompare(st *State, a, b Slice) *Term {
	tf := in.tf
	n := a.Len
	if b.Len < n {
		n = b.Len
	}
	var res *Term
	switch {
	case a.Len < b.Len:
		res = tf.ConstI(64, -1)
	case a.Len > b.Len:
		res = tf.ConstI(64, 1)
	default:
		res = tf.ConstI(64, 0)
	}
	for i := n - 1; i >= 0; i-- {
		x, y := in.termOf(in.elem(st, a, i), "compare"), in.termOf(in.elem(st, b, i), "compare")
		res = tf.Ite(tf.Cmp("bvult", x, y), tf.ConstI(64, -1), tf.Ite(tf.Cmp("bvult", y, x), tf.ConstI(64, 1), res))
	}
	return res
}

func samePath(a, b []int) bool {
	if len(a) != len(b) {
		return false
	}
	for i := range a {
		if a[i] != b[i] {
			return false
		}
	}
	return true
}

// valueEq builds a Bool term for Go's == on two values.
func (in *Interp) valueEq(st *State, a, b Value) *Term {
	tf := in.tf
	if p, ok := a.(Poison); ok {
		panic(endPath{kind: "unsupported", msg: "comparison of poison value: " + p.Why})
	}
	if p, ok := b.(Poison); ok {
		panic(endPath{kind: "unsupported", msg: "comparison of poison value: " + p.Why})
	}
	switch x := a.(type) {
	case *Term:
		return tf.Cmp("=", x, b.(*Term))
	case Ptr:
		y := b.(Ptr)
		if x.IsNil() || y.IsNil() {
			return tf.Bool(x.IsNil() && y.IsNil())
		}
		if x.Obj != y.Obj || !samePath(x.Path, y.Path) {
			return tf.False()
		}
		if x.Sym != nil || y.Sym != nil {
			if x.Sym != nil && y.Sym != nil && x.SymOff == y.SymOff {
				return tf.Cmp("=", x.Sym, y.Sym)
			}
			panic(endPath{kind: "unsupported", msg: "comparison of symbolic-index pointers"})
		}
		return tf.True()
	case Slice:
		y := b.(Slice)
		if x.Str {
			if x.Opaque || y.Opaque {
				panic(endPath{kind: "unsupported", msg: "comparison of a formatted string the engine did not evaluate (symbolic or method-formatted argument)"})
			}
			if x.Len != y.Len {
				return tf.False()
			}
			r := tf.True()
			for i := 0; i < x.Len; i++ {
				r = tf.LAnd(r, tf.Cmp("=", in.termOf(in.elem(st, x, i), "string =="), in.termOf(in.elem(st, y, i), "string ==")))
			}
			return r
		}
		if y.Nil && y.Obj < 0 {
			return tf.Bool(x.Nil)
		}
		if x.Nil && x.Obj < 0 {
			return tf.Bool(y.Nil)
		}
		panic("slice comparison")
	case Iface:
		y := b.(Iface)
		if x.T == nil || y.T == nil {
			return tf.Bool(x.T == nil && y.T == nil)
		}
		if !types.Identical(x.T, y.T) {
			return tf.False()
		}
		return in.valueEq(st, x.V, y.V)
	case Struct:
		y := b.(Struct)
		r := tf.True()
		for i := range x.F {
			r = tf.LAnd(r, in.valueEq(st, x.F[i], y.F[i]))
		}
		return r
	case Array:
		y := b.(Array)
		r := tf.True()
		for i := range x.E {
			r = tf.LAnd(r, in.valueEq(st, x.E[i], y.E[i]))
		}
		return r
	case MapRef:
		y := b.(MapRef)
		return tf.Bool(x.Nil == y.Nil && (x.Nil || x.Obj == y.Obj))
	case Closure:
		y := b.(Closure)
		return tf.Bool(x.Nil && y.Nil)
	case ChanRef:
		y := b.(ChanRef)
		return tf.Bool((x.Nil && y.Nil) || (!x.Nil && !y.Nil && x.Obj == y.Obj))
	}
	panic(fmt.Sprintf("valueEq %T", a))
}

// chanRecv: receive on the modelled channel; blocked != "" means the goroutine parks.
func (in *Interp) chanRecv(st *State, x *ssa.UnOp, ch ChanRef) (v Value, blocked string) {
	st.events = append(st.events, "chan recv")
	elem := x.X.Type().Underlying().(*types.Chan).Elem()
	result := func(v Value, ok bool) Value {
		if x.CommaOk {
			return Tuple{E: []Value{v, in.tf.Bool(ok)}}
		}
		return v
	}
	if ch.Nil {
		return nil, "receive from nil channel"
	}
	cd := st.heap[ch.Obj].Cell.(ChanData)
	if len(cd.Q) > 0 {
		st.setCell(ch.Obj, ChanData{Q: append([]Value(nil), cd.Q[1:]...), Closed: cd.Closed})
		return result(cd.Q[0], true), ""
	}
	if cd.Closed {
		return result(in.zero(elem), false), ""
	}
	return nil, "receive from an empty channel nobody sends on any more"
}

func (in *Interp) unop(st *State, x *ssa.UnOp, a Value) Value {
	if p, ok := a.(Poison); ok {
		if x.Op == token.ARROW {
			panic(endPath{kind: "unsupported", msg: "channel receive", pos: x.Pos()})
		}
		return p
	}
	switch x.Op {
	case token.MUL:
		p, ok := a.(Ptr)
		if !ok {
			return Poison{fmt.Sprintf("deref %T", a)}
		}
		if p.IsNil() {
			in.goPanic(st, "nil pointer dereference", x.Pos(), nil)
		}
		return in.loadPtr(st, p, x.Pos())
	case token.NOT:
		return in.tf.LNot(a.(*Term))
	case token.SUB:
		if t, ok := a.(*Term); ok {
			return in.tf.Neg(t)
		}
	case token.XOR:
		if t, ok := a.(*Term); ok {
			return in.tf.Not(t)
		}
	case token.ARROW:
		panic(endPath{kind: "unsupported", msg: "channel receive", pos: x.Pos()})
	}
	return Poison{"unop " + x.Op.String()}
}

func (in *Interp) convert(st *State, v Value, from, to types.Type) Value {
	if p, ok := v.(Poison); ok {
		return p
	}
	if _, sf, ok := intWidth(from); ok {
		if wt, _, ok2 := intWidth(to); ok2 {
			t := v.(*Term)
			if sf {
				return in.tf.SExt(wt, t)
			}
			return in.tf.ZExt(wt, t)
		}
		if isString(to) { // string(rune)
			t := v.(*Term)
			if t.IsConst() {
				return in.strConst(st, string(rune(signed(t.W, t.C).Int64())))
			}
			return Poison{"string(symbolic rune)"}
		}
		if isFloat(to) {
			return Poison{"int->float"}
		}
	}
	if isFloat(from) {
		return Poison{"float conversion"}
	}
	if isString(to) {
		if s, ok := v.(Slice); ok { // []byte -> string or string->string
			if s.Str {
				return s
			}
			if _, isRunes := from.Underlying().(*types.Slice); isRunes && !isByteSlice(from) {
				return Poison{"[]rune -> string"}
			}
			return in.copySlice(st, s, true)
		}
	}
	if _, ok := to.Underlying().(*types.Slice); ok {
		if s, ok := v.(Slice); ok { // string -> []byte
			if s.Str {
				if !isByteSlice(to) {
					return Poison{"string -> []rune"}
				}
				return in.copySlice(st, s, false)
			}
			return s
		}
	}
	if _, ok := to.Underlying().(*types.Pointer); ok {
		return v
	}
	if b, ok := to.Underlying().(*types.Basic); ok && b.Kind() == types.UnsafePointer {
		return v
	}
	return Poison{"convert " + from.String() + " -> " + to.String()}
}

func isByteSlice(t types.Type) bool {
	s, ok := t.Underlying().(*types.Slice)
	if !ok {
		return false
	}
	b, ok := s.Elem().Underlying().(*types.Basic)
	return ok && b.Kind() == types.Uint8
}

func (in *Interp) copySlice(st *State, s Slice, str bool) Value {
	if s.Len == 0 {
		if str {
			return Slice{Obj: -1, Str: true}
		}
		// []byte("") is non-nil and empty
		id := st.alloc(Array{E: nil}, "copy0")
		return Slice{Obj: id}
	}
	e := make([]Value, s.Len)
	a := st.arr(s)
	copy(e, a.E[s.Off:s.Off+s.Len])
	id := st.alloc(Array{E: e}, "copy")
	return Slice{Obj: id, Len: s.Len, Cap: s.Len, Str: str}
}

func (in *Interp) elem(st *State, s Slice, i int) Value {
	return st.arr(s).E[s.Off+i]
}

func (in *Interp) loadPtr(st *State, p Ptr, pos token.Pos) Value {
	in.logAccess(st, p.Obj, p.Path, false, pos)
	for _, r := range st.recycled {
		if r == p.Obj {
			panic(endPath{kind: "use-after-recycle", msg: "read of a receive buffer after it was returned to the pool", pos: pos})
		}
	}
	if p.Sym == nil {
		return st.load(p)
	}
	arr := st.load(Ptr{Obj: p.Obj, Path: p.Path}).(Array)
	elems := arr.E[p.SymOff : p.SymOff+p.SymN]
	if _, ok := elems[0].(*Term); !ok {
		return in.loadGrouped(st, elems, p.Sym)
	}
	return in.selectElem(elems, p.Sym)
}

// loadGrouped reads elems[idx] for a symbolic idx when the elements are not
// bit-vector terms (function values, pointers, structs): the indices are
// partitioned by element value and the path forks once per distinct value (a
// dispatch table of 256 entries with three distinct handlers costs three
// children, not 256).
func (in *Interp) loadGrouped(st *State, elems []Value, idx *Term) Value {
	if v, ok := st.concr[idx.id]; ok {
		return elems[int(v.Int64())]
	}
	if idx.IsConst() {
		return elems[int(idx.C.Int64())]
	}
	type group struct {
		val  Value
		idxs []int
	}
	var groups []*group
	for i, e := range elems {
		var g *group
		for _, c := range groups {
			if reflect.DeepEqual(c.val, e) {
				g = c
				break
			}
		}
		if g == nil {
			if len(groups) >= in.maxConcr {
				i := int(in.concretize(st, idx, "load through symbolic index"))
				return elems[i]
			}
			g = &group{val: e}
			groups = append(groups, g)
		}
		g.idxs = append(g.idxs, i)
	}
	if len(groups) == 1 {
		return groups[0].val
	}
	// the choice made at the fork is remembered per (index term, partition of the indices):
	// another table indexed by the same term partitions differently and forks again
	sig := make([]byte, 0, 2*len(elems)+12)
	sig = append(sig, fmt.Sprintf("%d:", idx.id)...)
	member := make([]int, len(elems))
	for gi, g := range groups {
		for _, i := range g.idxs {
			member[i] = gi
		}
	}
	for _, gi := range member {
		sig = append(sig, byte('A'+gi%26), byte('a'+gi/26))
	}
	key := string(sig)
	tf := in.tf
	condOf := func(g *group) *Term {
		c := tf.Bool(false)
		for k := 0; k < len(g.idxs); {
			j := k
			for j+1 < len(g.idxs) && g.idxs[j+1] == g.idxs[j]+1 {
				j++
			}
			lo, hi := tf.ConstU(idx.W, uint64(g.idxs[k])), tf.ConstU(idx.W, uint64(g.idxs[j]))
			var r *Term
			if k == j {
				r = tf.Cmp("=", idx, lo)
			} else {
				r = tf.LAnd(tf.Cmp("bvule", lo, idx), tf.Cmp("bvule", idx, hi))
			}
			c = tf.LOr(c, r)
			k = j + 1
		}
		return c
	}
	// decide-before-mutate: a group whose condition is already implied is taken without forking
	fr := forkReq{why: "load through symbolic index (by distinct element)"}
	for _, g := range groups {
		g := g
		fr.conds = append(fr.conds, condOf(g))
		rep := g.idxs[0]
		single := len(g.idxs) == 1
		fr.apply = append(fr.apply, func(s *State) {
			if single {
				s.concr[idx.id] = big.NewInt(int64(rep))
			} else {
				s.grouped = setGrouped(s.grouped, key, rep)
			}
		})
	}
	if rep, ok := st.grouped[key]; ok {
		return elems[rep]
	}
	panic(fr)
}

func setGrouped(m map[string]int, k string, v int) map[string]int {
	n := make(map[string]int, len(m)+1)
	for a, b := range m {
		n[a] = b
	}
	n[k] = v
	return n
}

func (in *Interp) storePtr(st *State, p Ptr, v Value, pos token.Pos) {
	in.logAccess(st, p.Obj, p.Path, true, pos)
	if st.heap[p.Obj].Tag == "arrayview-copy" {
		panic(endPath{kind: "unsupported", msg: "store through an array pointer converted from the middle of a slice", pos: pos})
	}
	if p.Sym == nil {
		st.store(p, v)
		return
	}
	base := Ptr{Obj: p.Obj, Path: p.Path}
	arr := st.load(base).(Array)
	nv, ok := v.(*Term)
	if !ok {
		i := int(in.concretize(st, p.Sym, "store through symbolic index"))
		st.store(base.ext(p.SymOff+i), v)
		return
	}
	e := append([]Value(nil), arr.E...)
	for i := 0; i < p.SymN; i++ {
		old, isT := e[p.SymOff+i].(*Term)
		if !isT {
			j := int(in.concretize(st, p.Sym, "store through symbolic index"))
			st.store(base.ext(p.SymOff+j), v)
			return
		}
		e[p.SymOff+i] = in.tf.Ite(in.tf.Cmp("=", p.Sym, in.tf.ConstU(p.Sym.W, uint64(i))), nv, old)
	}
	st.store(base, Array{E: e})
}

// concretePtr resolves a symbolic-index pointer into a concrete one (forking).
func (in *Interp) concretePtr(st *State, p Ptr) Ptr {
	if p.Sym == nil {
		return p
	}
	i := int(in.concretize(st, p.Sym, "pointer with symbolic index"))
	return Ptr{Obj: p.Obj, Path: append(append([]int(nil), p.Path...), p.SymOff+i)}
}

func (in *Interp) boundsCheck(st *State, idx *Term, n int, pos token.Pos, what string) {
	var ok *Term
	if n == 0 {
		ok = in.tf.False()
	} else if idx.W < 63 && uint64(n) >= uint64(1)<<uint(idx.W) {
		ok = in.tf.True() // every value of the index type is in range
	} else {
		ok = in.tf.Cmp("bvult", idx, in.tf.ConstU(idx.W, uint64(n)))
	}
	if !in.decide(st, ok) {
		in.goPanic(st, fmt.Sprintf("index out of range (%s, len %d)", what, n), pos, nil)
	}
}

func (in *Interp) indexAddr(st *State, x, idx Value, pos token.Pos) Value {
	it := in.termOf(idx, "index")
	switch a := x.(type) {
	case Slice:
		in.boundsCheck(st, it, a.Len, pos, "slice")
		base := Ptr{Obj: a.Obj, Path: a.Path}
		if it.IsConst() {
			return base.ext(a.Off + int(it.U64()))
		}
		return Ptr{Obj: a.Obj, Path: a.Path, Sym: it, SymOff: a.Off, SymN: a.Len}
	case Ptr:
		if a.IsNil() {
			in.goPanic(st, "nil pointer dereference (index)", pos, nil)
		}
		a = in.concretePtr(st, a)
		arr, ok := st.load(a).(Array)
		if !ok {
			return Poison{"indexaddr into non-array"}
		}
		in.boundsCheck(st, it, len(arr.E), pos, "array")
		if it.IsConst() {
			return a.ext(int(it.U64()))
		}
		return Ptr{Obj: a.Obj, Path: a.Path, Sym: it, SymN: len(arr.E)}
	case Poison:
		return a
	}
	return Poison{fmt.Sprintf("indexaddr %T", x)}
}

// selectElem reads e[idx] for a symbolic idx as an ite chain (elements must be terms).
func (in *Interp) selectElem(elems []Value, idx *Term) Value {
	if idx.IsConst() {
		return elems[idx.U64()]
	}
	res := elems[len(elems)-1]
	rt, ok := res.(*Term)
	if !ok {
		return Poison{"symbolic index over non-scalar elements"}
	}
	if len(elems) >= 4 {
		allConst := true
		for _, e := range elems {
			if t, ok := e.(*Term); !ok || !t.IsConst() || t.W != rt.W {
				allConst = false
				break
			}
		}
		if allConst {
			tbl := make([]*big.Int, len(elems))
			for i, e := range elems {
				tbl[i] = e.(*Term).C
			}
			return in.tf.TableSel(tbl, rt.W, idx)
		}
	}
	for i := len(elems) - 2; i >= 0; i-- {
		et, ok := elems[i].(*Term)
		if !ok {
			return Poison{"symbolic index over non-scalar elements"}
		}
		rt = in.tf.Ite(in.tf.Cmp("=", idx, in.tf.ConstU(idx.W, uint64(i))), et, rt)
	}
	return rt
}

func (in *Interp) indexVal(st *State, x, idx Value, pos token.Pos) Value {
	it := in.termOf(idx, "index")
	switch a := x.(type) {
	case Array:
		in.boundsCheck(st, it, len(a.E), pos, "array value")
		if len(a.E) > 0 {
			if _, ok := a.E[0].(*Term); !ok && !it.IsConst() {
				i := int(in.concretize(st, it, "index of non-scalar array value"))
				return a.E[i]
			}
		}
		return in.selectElem(a.E, it)
	case Slice: // string indexing
		in.boundsCheck(st, it, a.Len, pos, "string")
		all := st.arr(a).E[a.Off : a.Off+a.Len]
		return in.selectElem(all, it)
	}
	return Poison{fmt.Sprintf("index of %T", x)}
}

func (in *Interp) lookup(st *State, x *ssa.Lookup, m, key Value) Value {
	if s, ok := m.(Slice); ok && s.Str {
		it := in.termOf(key, "string index")
		in.boundsCheck(st, it, s.Len, x.Pos(), "string")
		all := st.arr(s).E[s.Off : s.Off+s.Len]
		return in.selectElem(all, it)
	}
	mr, ok := m.(MapRef)
	if !ok {
		return Poison{fmt.Sprintf("lookup in %T", m)}
	}
	et := x.X.Type().Underlying().(*types.Map).Elem()
	found := -1
	if !mr.Nil {
		md := st.heap[mr.Obj].Cell.(MapData)
		for i, k := range md.Keys {
			if in.decide(st, in.valueEq(st, k, key)) {
				found = i
				break
			}
		}
		in.logAccess(st, mr.Obj, nil, false, x.Pos())
		if found >= 0 {
			if x.CommaOk {
				return Tuple{E: []Value{md.Vals[found], in.tf.True()}}
			}
			return md.Vals[found]
		}
	}
	if x.CommaOk {
		return Tuple{E: []Value{in.zero(et), in.tf.False()}}
	}
	return in.zero(et)
}

func (in *Interp) slice(st *State, f *Frame, x *ssa.Slice) Value {
	v := in.eval(st, f, x.X)
	get := func(o ssa.Value, def int) int {
		if o == nil {
			return def
		}
		return int(in.concretize(st, in.termOf(in.eval(st, f, o), "slice bound"), "slice bound"))
	}
	switch a := v.(type) {
	case Slice:
		lo := get(x.Low, 0)
		hi := get(x.High, a.Len)
		capLimit := a.Cap
		if a.Str {
			capLimit = a.Len
		}
		mx := get(x.Max, capLimit)
		if lo < 0 || hi < lo || hi > capLimit || mx > capLimit || mx < hi {
			in.goPanic(st, fmt.Sprintf("slice bounds out of range [%d:%d:%d] with capacity %d", lo, hi, mx, capLimit), x.Pos(), nil)
		}
		if a.Obj < 0 {
			return a
		}
		return Slice{Obj: a.Obj, Path: a.Path, Off: a.Off + lo, Len: hi - lo, Cap: mx - lo, Str: a.Str}
	case Ptr: // *array
		if a.IsNil() {
			in.goPanic(st, "nil pointer dereference (slice of *array)", x.Pos(), nil)
		}
		a = in.concretePtr(st, a)
		arr, ok := st.load(a).(Array)
		if !ok {
			return Poison{"slice of non-array pointer"}
		}
		n := len(arr.E)
		lo := get(x.Low, 0)
		hi := get(x.High, n)
		mx := get(x.Max, n)
		if lo < 0 || hi < lo || hi > n || mx > n || mx < hi {
			in.goPanic(st, "slice bounds out of range (array)", x.Pos(), nil)
		}
		return Slice{Obj: a.Obj, Path: a.Path, Off: lo, Len: hi - lo, Cap: mx - lo}
	case Poison:
		return a
	}
	return Poison{fmt.Sprintf("slice of %T", v)}
}

func (in *Interp) sliceToArrayPtr(st *State, x *ssa.SliceToArrayPointer, v Value) Value {
	s, ok := v.(Slice)
	if !ok {
		return Poison{"slice->array pointer"}
	}
	n := int(x.Type().(*types.Pointer).Elem().Underlying().(*types.Array).Len())
	if s.Len < n {
		in.goPanic(st, "cannot convert slice to array pointer: length too short", x.Pos(), nil)
	}
	if s.Obj < 0 {
		return nilPtr
	}
	a := st.arr(s)
	if s.Off == 0 && len(a.E) == n {
		return Ptr{Obj: s.Obj, Path: s.Path}
	}
	// a view into the middle of an array: modelled by a copy, which is exact for
	// the value conversion [N]T(slice); writing through it is refused (storePtr)
	e := make([]Value, n)
	copy(e, a.E[s.Off:s.Off+n])
	return Ptr{Obj: st.alloc(Array{E: e}, "arrayview-copy")}
}

func (in *Interp) typeAssert(st *State, x *ssa.TypeAssert, v Value) Value {
	i, isI := v.(Iface)
	if !isI {
		panic(endPath{kind: "unsupported", msg: fmt.Sprintf("type assertion on %T", v), pos: x.Pos()})
	}
	ok := false
	var res Value
	if it, isIface := x.AssertedType.Underlying().(*types.Interface); isIface {
		if i.T != nil && types.Implements(i.T, it) {
			ok, res = true, i
		} else {
			res = Iface{}
		}
	} else {
		if i.T != nil && types.Identical(i.T, x.AssertedType) {
			ok, res = true, i.V
		} else {
			res = in.zero(x.AssertedType)
		}
	}
	if x.CommaOk {
		return Tuple{E: []Value{res, in.tf.Bool(ok)}}
	}
	if !ok {
		have := "nil"
		if i.T != nil {
			have = i.T.String()
		}
		in.goPanic(st, "interface conversion failed: have "+have+", want "+x.AssertedType.String(), x.Pos(), nil)
	}
	return res
}

func (in *Interp) rangeStart(st *State, v Value) Value {
	switch x := v.(type) {
	case MapRef:
		d := IterData{}
		if !x.Nil {
			md := st.heap[x.Obj].Cell.(MapData)
			d.Keys, d.Vals = md.Keys, md.Vals
			st.mapOps = append(st.mapOps, fmt.Sprintf("range %d", x.Obj))
		}
		return Iter{Obj: st.alloc(d, "iter")}
	case Slice:
		if x.Str {
			return Iter{Obj: st.alloc(IterData{Str: x, IsStr: true}, "iter")}
		}
	}
	return Poison{fmt.Sprintf("range over %T", v)}
}

func (in *Interp) rangeNext(st *State, x *ssa.Next, v Value) Value {
	it, ok := v.(Iter)
	if !ok {
		panic(endPath{kind: "unsupported", msg: fmt.Sprintf("next on %T", v), pos: x.Pos()})
	}
	d := st.heap[it.Obj].Cell.(IterData)
	tf := in.tf
	if x.IsString {
		s := d.Str
		if d.Pos >= s.Len {
			return Tuple{E: []Value{tf.False(), tf.ConstI(64, 0), tf.ConstI(32, 0)}}
		}
		b := in.termOf(in.elem(st, s, d.Pos), "range string")
		// ASCII fast path; multi-byte sequences need a concrete byte
		if !in.decide(st, tf.Cmp("bvult", b, tf.ConstU(8, 0x80))) {
			if !b.IsConst() {
				panic(endPath{kind: "unsupported", msg: "range over string with symbolic non-ASCII byte", pos: x.Pos()})
			}
			// decode concretely
			raw := make([]byte, 0, 4)
			for j := d.Pos; j < s.Len && j < d.Pos+4; j++ {
				t := in.termOf(in.elem(st, s, j), "range string")
				if !t.IsConst() {
					break
				}
				raw = append(raw, byte(t.U64()))
			}
			r, size := decodeRune(raw)
			pos := d.Pos
			d.Pos += size
			st.setCell(it.Obj, d)
			return Tuple{E: []Value{tf.True(), tf.ConstI(64, int64(pos)), tf.ConstI(32, int64(r))}}
		}
		pos := d.Pos
		d.Pos++
		st.setCell(it.Obj, d)
		return Tuple{E: []Value{tf.True(), tf.ConstI(64, int64(pos)), tf.ZExt(32, b)}}
	}
	mt := x.Iter.(*ssa.Range).X.Type().Underlying().(*types.Map)
	if d.Pos >= len(d.Keys) {
		return Tuple{E: []Value{tf.False(), in.zero(mt.Key()), in.zero(mt.Elem())}}
	}
	k, val := d.Keys[d.Pos], d.Vals[d.Pos]
	d.Pos++
	st.setCell(it.Obj, d)
	return Tuple{E: []Value{tf.True(), k, val}}
}

func decodeRune(b []byte) (rune, int) {
	rs := []rune(string(b))
	if len(rs) == 0 {
		return 0xFFFD, 1
	}
	r := rs[0]
	if r == 0xFFFD {
		return r, 1
	}
	return r, len(string(r))
}

func (in *Interp) builtin(st *State, name string, args []Value, retTo ssa.Value, pos token.Pos) Value {
	switch name {
	case "len":
		switch a := args[0].(type) {
		case Slice:
			if a.Opaque {
				panic(endPath{kind: "unsupported", msg: "len of a formatted string the engine did not evaluate", pos: pos})
			}
			return in.tf.ConstU(64, uint64(a.Len))
		case ChanRef:
			if a.Nil {
				return in.tf.ConstU(64, 0)
			}
			return in.tf.ConstU(64, uint64(len(st.heap[a.Obj].Cell.(ChanData).Q)))
		case MapRef:
			if a.Nil {
				return in.tf.ConstU(64, 0)
			}
			st.mapOps = append(st.mapOps, fmt.Sprintf("len %d", a.Obj))
			in.logAccess(st, a.Obj, nil, false, pos)
			return in.tf.ConstU(64, uint64(len(st.heap[a.Obj].Cell.(MapData).Keys)))
		case Array:
			return in.tf.ConstU(64, uint64(len(a.E)))
		case Ptr:
			if arr, ok := st.load(a).(Array); ok {
				return in.tf.ConstU(64, uint64(len(arr.E)))
			}
		}
	case "cap":
		if a, ok := args[0].(Slice); ok {
			return in.tf.ConstU(64, uint64(a.Cap))
		}
	case "close":
		ch, ok := args[0].(ChanRef)
		if !ok {
			panic(endPath{kind: "unsupported", msg: fmt.Sprintf("close of %T", args[0]), pos: pos})
		}
		if ch.Nil {
			in.goPanic(st, "close of nil channel", pos, nil)
		}
		cd := st.heap[ch.Obj].Cell.(ChanData)
		if cd.Closed {
			in.goPanic(st, "close of closed channel", pos, nil)
		}
		st.events = append(st.events, "chan close")
		st.setCell(ch.Obj, ChanData{Q: cd.Q, Closed: true})
		return nil
	case "copy":
		dst, src := args[0].(Slice), args[1].(Slice)
		n := dst.Len
		if src.Len < n {
			n = src.Len
		}
		if n > 0 {
			vals := make([]Value, n)
			sa := st.arr(src)
			copy(vals, sa.E[src.Off:src.Off+n])
			arr := st.arr(dst)
			e := append([]Value(nil), arr.E...)
			copy(e[dst.Off:dst.Off+n], vals)
			st.setArr(dst, Array{E: e})
		}
		return in.tf.ConstU(64, uint64(n))
	case "append":
		a, b := args[0].(Slice), args[1].(Slice)
		if b.Len == 0 {
			return a
		}
		if a.Len+b.Len <= a.Cap && a.Obj >= 0 {
			vals := make([]Value, b.Len)
			for i := range vals {
				vals[i] = in.elem(st, b, i)
			}
			arr := st.arr(a)
			e := append([]Value(nil), arr.E...)
			copy(e[a.Off+a.Len:], vals)
			st.setArr(a, Array{E: e})
			return Slice{Obj: a.Obj, Path: a.Path, Off: a.Off, Len: a.Len + b.Len, Cap: a.Cap}
		}
		nc := 2*a.Cap + b.Len
		e := make([]Value, nc)
		for i := 0; i < a.Len; i++ {
			e[i] = in.elem(st, a, i)
		}
		for i := 0; i < b.Len; i++ {
			e[a.Len+i] = in.elem(st, b, i)
		}
		var z Value
		if retTo != nil {
			z = in.zero(retTo.Type().Underlying().(*types.Slice).Elem())
		} else {
			z = Poison{"append zero"}
		}
		for i := a.Len + b.Len; i < nc; i++ {
			e[i] = z
		}
		id := st.alloc(Array{E: e}, "append")
		return Slice{Obj: id, Len: a.Len + b.Len, Cap: nc}
	case "ssa:wrapnilchk":
		if p, ok := args[0].(Ptr); ok && p.IsNil() {
			in.goPanic(st, "value method called on nil pointer", pos, nil)
		}
		return args[0]
	case "delete":
		mr := args[0].(MapRef)
		if mr.Nil {
			return nil
		}
		md := st.heap[mr.Obj].Cell.(MapData)
		found := -1
		for i, k := range md.Keys {
			if in.decide(st, in.valueEq(st, k, args[1])) {
				found = i
				break
			}
		}
		if found >= 0 {
			nk := append(append([]Value(nil), md.Keys[:found]...), md.Keys[found+1:]...)
			nv := append(append([]Value(nil), md.Vals[:found]...), md.Vals[found+1:]...)
			in.logAccess(st, mr.Obj, nil, true, pos)
			st.setCell(mr.Obj, MapData{Keys: nk, Vals: nv})
		}
		return nil
	case "recover":
		pi := st.panicking
		if pi != nil && len(st.stack) == pi.deferBase+1 {
			st.panicking = nil
			st.stack[pi.deferBase-1].recovered = true
			return pi.val
		}
		return Iface{}
	case "panic":
		in.goPanic(st, "panic builtin", pos, args[0])
	case "min", "max":
		r := in.termOf(args[0], name)
		_, sgn, _ := intWidth(retTo.Type())
		lt := "bvult"
		if sgn {
			lt = "bvslt"
		}
		for _, a := range args[1:] {
			t := in.termOf(a, name)
			if name == "min" {
				r = in.tf.Ite(in.tf.Cmp(lt, t, r), t, r)
			} else {
				r = in.tf.Ite(in.tf.Cmp(lt, r, t), t, r)
			}
		}
		return r
	case "clear":
		switch a := args[0].(type) {
		case MapRef:
			if !a.Nil {
				st.setCell(a.Obj, MapData{})
			}
			return nil
		case Slice:
			if a.Len > 0 {
				arr := st.arr(a)
				e := append([]Value(nil), arr.E...)
				var z Value = in.tf.ConstU(8, 0)
				if t, ok := e[a.Off].(*Term); ok {
					z = in.tf.ConstU(t.W, 0)
				} else {
					panic(endPath{kind: "unsupported", msg: "clear of a non-scalar slice", pos: pos})
				}
				for i := 0; i < a.Len; i++ {
					e[a.Off+i] = z
				}
				st.setArr(a, Array{E: e})
			}
			return nil
		}
	case "SliceData", "StringData":
		a := args[0].(Slice)
		if a.Obj < 0 {
			return nilPtr
		}
		return Ptr{Obj: a.Obj, Path: append(append([]int(nil), a.Path...), a.Off)}
	case "String", "Slice":
		p, ok := args[0].(Ptr)
		n := int(in.concretize(st, in.termOf(args[1], "unsafe."+name), "unsafe."+name))
		if !ok {
			break
		}
		if p.IsNil() || n == 0 {
			if name == "String" {
				return Slice{Obj: -1, Str: true}
			}
			return Slice{Obj: -1, Nil: p.IsNil()}
		}
		if len(p.Path) == 0 || p.Sym != nil {
			break
		}
		off := p.Path[len(p.Path)-1]
		return Slice{Obj: p.Obj, Path: append([]int(nil), p.Path[:len(p.Path)-1]...), Off: off, Len: n, Cap: n, Str: name == "String"}
	case "print", "println":
		return nil
	}
	panic(endPath{kind: "unsupported", msg: "builtin " + name, pos: pos})
}
