package main

import (
	"encoding/json"
	"fmt"
	"math/rand"
	"os"
	"path/filepath"
	"sort"
	"strconv"
	"strings"
	"sync"
	"time"

	"golang.org/x/tools/go/ssa"
)

// ---------- configuration (checks.json) ----------

type EntryCfg struct {
	Pkg       string                       `json:"pkg"`     // "./plugins/allocators/bitmap"
	Harness   string                       `json:"harness"` // dir under /verif/harness
	Entry     string                       `json:"entry"`
	group     string                       // name of the shared group the entry came from ("" = the check's own entries)
	Grid      map[string]map[string]string `json:"grid"` // tier -> label -> value spec ("0..128", "1,2,3")
	Unwind    int                          `json:"unwind"`
	Stubs     map[string]string            `json:"stubs"` // qualified name -> replacement function in the harness package
	Native    *bool                        `json:"native"`
	Covers    []string                     `json:"covers"`
	Tiers     []string                     `json:"tiers"` // tiers this entry runs in (default both)
	MaxConcr  int                          `json:"max_concretise"`
	InitAllow []string                     `json:"init_allow"`
	Opts      []string                     `json:"opts"`
	Info      bool                         `json:"informational"`
	Overlays  map[string]string            `json:"overlays"` // extra: rel package dir -> harness dir (exported test hooks of other packages)
}

type CheckCfg struct {
	Title       string     `json:"title"`
	Prefix      string     `json:"label_prefix"`
	PanicsCount bool       `json:"panics_count"`
	Entries     []EntryCfg `json:"entries"`
	Use         []string   `json:"use"` // names of shared entry groups
	Level       string     `json:"level"`
	Assumptions []string   `json:"assumptions"`
	Trusted     []string   `json:"trusted_base"`
	ExhaustiveTier string  `json:"exhaustive_tier"` // tier whose case grid enumerates the whole finite parameter space
	BorrowedQuick  []string `json:"borrowed_quick"` // groups whose QUICK grid this check uses in its thorough tier too (their deep grids belong to the property that owns them)
	LocksCount     bool    `json:"locks_count"`     // self-deadlocks and leaked locks on any path are violations of this property (C16)
	Lockset        bool    `json:"lockset"`         // the property speaks about concurrent callers: apply the lockset verdict to the accesses logged by its harnesses
}

type Config struct {
	TimeoutS map[string]int        `json:"timeout_s"`
	Unwind   int                   `json:"unwind"`
	Groups   map[string][]EntryCfg `json:"groups"`
	Checks   map[string]*CheckCfg  `json:"checks"`
}

type KnownFinding struct {
	Property string `json:"property"`
	ID       string `json:"finding_id"`
	Status   string `json:"status"` // known | fixed
	Commit   string `json:"commit,omitempty"`
	What     string `json:"what"`
	Match    string `json:"match,omitempty"` // for panic-kind findings: substring of "entry|function|message"
}

func parseSpec(s string) []int {
	var out []int
	for _, part := range strings.Split(s, ",") {
		part = strings.TrimSpace(part)
		if part == "" {
			continue
		}
		if i := strings.Index(part, ".."); i >= 0 {
			lo, _ := strconv.Atoi(part[:i])
			hi, _ := strconv.Atoi(part[i+2:])
			for v := lo; v <= hi; v++ {
				out = append(out, v)
			}
			continue
		}
		v, _ := strconv.Atoi(part)
		out = append(out, v)
	}
	return out
}

type Task struct {
	Entry   *EntryCfg
	Fn      *ssa.Function
	Presets map[string]int
	Stubs   map[string]*ssa.Function
}

type TaskResult struct {
	Task     *Task
	Results  []PathResult
	Queries  int
	Sat      int
	Unsat    int
	Unknown  int
	SolverS  float64
	MaxQ     float64
	Instrs   int
	Forks    int
	Merged   int
	Funcs    map[*ssa.Function]bool
	Wall     float64
	Restarts int
	Fault    string
}

func gridTasks(e *EntryCfg, tier string) []map[string]int {
	g := e.Grid[tier]
	if g == nil {
		g = e.Grid["all"]
	}
	var labels []string
	for l := range g {
		labels = append(labels, l)
	}
	sort.Strings(labels)
	out := []map[string]int{{}}
	for _, l := range labels {
		vals := parseSpec(g[l])
		var next []map[string]int
		for _, m := range out {
			for _, v := range vals {
				nm := map[string]int{}
				for k, x := range m {
					nm[k] = x
				}
				nm[l] = v
				next = append(next, nm)
			}
		}
		out = next
	}
	return out
}

func (e *EntryCfg) inTier(tier string) bool {
	if len(e.Tiers) == 0 {
		return true
	}
	for _, t := range e.Tiers {
		if t == tier {
			return true
		}
	}
	return false
}

func verifDir() string {
	if d := os.Getenv("VERIF_DIR"); d != "" {
		return d
	}
	return "/verif"
}

// outDir is where evidence, replays and scratch files go (VERIF_OUT: scratch runs only).
func outDir() string {
	if d := os.Getenv("VERIF_OUT"); d != "" {
		return d
	}
	return verifDir()
}

func runTask(eng *Engine, t *Task, solverBin string, timeout time.Duration, unwind int, sampleOK int, second string, verbose bool, labelPrefix ...string) (tr TaskResult) {
	tr.Task = t
	t0 := time.Now()
	sol, err := NewSolver(solverBin, timeout)
	if err != nil {
		tr.Fault = "cannot start solver: " + err.Error()
		return
	}
	defer sol.Close()
	if d := os.Getenv("VERIF_SMTLOG"); d != "" {
		lf, _ := os.Create(filepath.Join(d, fmt.Sprintf("%s-%d.smt2", t.Entry.Entry, time.Now().UnixNano())))
		if lf != nil {
			defer lf.Close()
			sol.log = lf
		}
	}
	if t.Entry.Unwind > 0 {
		unwind = t.Entry.Unwind
	}
	in := &Interp{eng: eng, prog: eng.prog, tf: NewTF(), sol: sol, regIdx: map[*ssa.Function]map[ssa.Value]int{}, intrC: map[*ssa.Function]intrinsicFn{},
		unwind: unwind, presets: t.Presets, funcs: map[*ssa.Function]bool{}, maxConcr: 64, verbose: verbose, stubs: t.Stubs, sampleOK: sampleOK, second: second,
		stepCap: 50_000_000, opts: map[string]bool{}}
	in.slowMs = envInt("VERIF_SLOWQ", 0)
	if len(labelPrefix) > 0 {
		in.labelPrefix = labelPrefix[0]
	}
	if verbose || os.Getenv("VERIF_FORKSITES") != "" {
		in.forkSites = map[string]int{}
		defer func() {
			for k, v := range in.forkSites {
				fmt.Printf("FORKSITE %6d %s\n", v, k)
			}
		}()
	}
	if t.Entry.MaxConcr > 0 {
		in.maxConcr = t.Entry.MaxConcr
	}
	for _, o := range t.Entry.Opts {
		in.opts[o] = true
	}
	defer func() {
		if r := recover(); r != nil {
			tr.Fault = fmt.Sprintf("engine fault: %v", r)
		}
		tr.Results = in.results
		tr.Queries, tr.Sat, tr.Unsat, tr.Unknown = sol.Queries, sol.Sat, sol.Unsat, sol.Unknown
		tr.SolverS, tr.MaxQ = sol.Time.Seconds(), sol.MaxQuery.Seconds()
		tr.Instrs, tr.Forks, tr.Funcs = in.nInstr, in.nForks, in.funcs
		tr.Merged = in.nMerged
		tr.Wall = time.Since(t0).Seconds()
		tr.Restarts = sol.Restarts
	}()
	st := newState()
	in.pushFrame(st, t.Fn, nil, nil)
	sol.Push()
	in.Explore(st, 0)
	sol.Pop()
	return
}

// ---------- the check driver ----------

type violation struct {
	Entry   string
	Label   string
	Kind    string
	Msg     string
	Pos     string
	Fn      string
	Picks   map[string]int
	Draws   []drawRec
	Finding string
	Replay  string
	Native  string // outcome of the native replay
	Second  string
	EngineOnly bool
}

func loadConfig() (*Config, []KnownFinding, error) {
	var cfg Config
	b, err := os.ReadFile(filepath.Join(verifDir(), "checks.json"))
	if err != nil {
		return nil, nil, err
	}
	if err := json.Unmarshal(b, &cfg); err != nil {
		return nil, nil, fmt.Errorf("checks.json: %v", err)
	}
	var kf []KnownFinding
	if b, err := os.ReadFile(filepath.Join(verifDir(), "known_findings.json")); err == nil {
		if err := json.Unmarshal(b, &kf); err != nil {
			return nil, nil, fmt.Errorf("known_findings.json: %v", err)
		}
	}
	return &cfg, kf, nil
}

func (c *Config) entriesOf(id string) []EntryCfg {
	ck := c.Checks[id]
	var out []EntryCfg
	for _, g := range ck.Use {
		for _, e := range c.Groups[g] {
			e.group = g
			out = append(out, e)
		}
	}
	out = append(out, ck.Entries...)
	return out
}

func envInt(name string, def int) int {
	if v := os.Getenv(name); v != "" {
		if i, err := strconv.Atoi(v); err == nil {
			return i
		}
	}
	return def
}

func cmdCheck(args []string) int {
	property, tier := "", ""
	verbose := false
	workers := envInt("VERIF_WORKERS", 16)
	only := ""
	for i := 0; i < len(args); i++ {
		switch args[i] {
		case "-property":
			i++
			property = args[i]
		case "-tier":
			i++
			tier = args[i]
		case "-v":
			verbose = true
		case "-only":
			i++
			only = args[i]
		case "-workers":
			i++
			workers, _ = strconv.Atoi(args[i])
		}
	}
	if tier == "" {
		tier = os.Getenv("VERIF_TIER")
	}
	if tier != "thorough" {
		tier = "quick"
	}
	seed := int64(envInt("VERIF_SEED", 1))
	t0 := time.Now()
	cfg, known, err := loadConfig()
	if err != nil {
		fmt.Println("CONFIG-ERROR", err)
		return 2
	}
	ck := cfg.Checks[property]
	if ck == nil {
		fmt.Println("CONFIG-ERROR unknown property", property)
		return 2
	}
	if ck.Prefix == "" {
		ck.Prefix = property
	}
	entries := cfg.entriesOf(property)
	var sel []EntryCfg
	for _, e := range entries {
		if e.inTier(tier) && (only == "" || strings.Contains(e.Entry, only)) {
			sel = append(sel, e)
		}
	}
	entries = sel
	if len(entries) == 0 {
		fmt.Println("CONFIG-ERROR no entries for", property, tier)
		return 2
	}
	// load
	patSet := map[string]bool{}
	hdirs := map[string]string{}
	var allow []string
	for _, e := range entries {
		patSet[e.Pkg] = true
		hdirs[relOf(e.Pkg)] = e.Harness
		for k, v := range e.Overlays {
			hdirs[k] = v
		}
		allow = append(allow, e.InitAllow...)
	}
	var pats []string
	for p := range patSet {
		pats = append(pats, p)
	}
	sort.Strings(pats)
	ov, err := harnessOverlay(verifDir(), hdirs)
	if err != nil {
		fmt.Println("HARNESS-BUILD-FAILURE", err)
		return 2
	}
	eng, err := loadEngine(pats, ov)
	if err != nil {
		fmt.Println("HARNESS-BUILD-FAILURE", err)
		return 2
	}
	eng.initAllow = allow
	loadS := time.Since(t0).Seconds()
	fmt.Printf("loaded %d packages, built SSA in %.1fs\n", len(eng.prog.AllPackages()), loadS)

	// tasks
	var tasks []*Task
	for i := range entries {
		e := &entries[i]
		fn := eng.findFunc(relOf(e.Pkg), e.Entry)
		if fn == nil {
			fmt.Printf("HARNESS-BUILD-FAILURE entry %s not found in %s\n", e.Entry, e.Pkg)
			return 2
		}
		stubs := map[string]*ssa.Function{}
		for q, rep := range e.Stubs {
			rf := eng.findFunc(relOf(e.Pkg), rep)
			if rf == nil {
				fmt.Printf("HARNESS-BUILD-FAILURE stub %s not found in %s\n", rep, e.Pkg)
				return 2
			}
			stubs[q] = rf
		}
		etier := tier
		if tier == "thorough" {
			for _, g := range ck.BorrowedQuick {
				if g == e.group {
					etier = "quick"
				}
			}
		}
		for _, presets := range gridTasks(e, etier) {
			tasks = append(tasks, &Task{Entry: e, Fn: fn, Presets: presets, Stubs: stubs})
		}
	}
	rng := rand.New(rand.NewSource(seed))
	rng.Shuffle(len(tasks), func(i, j int) { tasks[i], tasks[j] = tasks[j], tasks[i] })

	timeout := time.Duration(10) * time.Second
	if v, ok := cfg.TimeoutS[tier]; ok {
		timeout = time.Duration(v) * time.Second
	}
	unwind := cfg.Unwind
	if unwind == 0 {
		unwind = 64
	}
	solverBin := os.Getenv("VERIF_SOLVER")
	if solverBin == "" {
		solverBin = "z3-new"
	}
	second := ""
	if tier == "thorough" {
		second = os.Getenv("VERIF_SECOND_SOLVER")
		if second == "" {
			second = "cvc5"
		}
		if second == "none" {
			second = ""
		}
	}
	sampleOK := 2
	if tier == "thorough" {
		sampleOK = 4
	}
	if workers > len(tasks) {
		workers = len(tasks)
	}
	results := make([]TaskResult, len(tasks))
	var wg sync.WaitGroup
	ch := make(chan int)
	var doneN int
	var dmu sync.Mutex
	running := map[int]time.Time{}
	stopTick := make(chan struct{})
	go func() {
		tk := time.NewTicker(60 * time.Second)
		defer tk.Stop()
		for {
			select {
			case <-stopTick:
				return
			case <-tk.C:
				dmu.Lock()
				for i, t0 := range running {
					if time.Since(t0) > 90*time.Second {
						fmt.Printf("  STILL-RUNNING %.0fs %s %v\n", time.Since(t0).Seconds(), tasks[i].Entry.Entry, tasks[i].Presets)
					}
				}
				dmu.Unlock()
			}
		}
	}()
	for w := 0; w < workers; w++ {
		wg.Add(1)
		go func() {
			defer wg.Done()
			for i := range ch {
				dmu.Lock()
				running[i] = time.Now()
				dmu.Unlock()
				results[i] = runTask(eng, tasks[i], solverBin, timeout, unwind, sampleOK, second, verbose, ck.Prefix)
				dmu.Lock()
				delete(running, i)
				doneN++
				if verbose || doneN%50 == 0 {
					fmt.Printf("  [%d/%d] %s %v: %d paths, %.1fs\n", doneN, len(tasks), tasks[i].Entry.Entry, tasks[i].Presets, len(results[i].Results), results[i].Wall)
				}
				dmu.Unlock()
			}
		}()
	}
	for i := range tasks {
		ch <- i
	}
	close(ch)
	wg.Wait()
	close(stopTick)

	return judge(eng, cfg, ck, property, tier, seed, known, tasks, results, t0, loadS, timeout, unwind, solverBin, second)
}

func picksString(p map[string]int) string {
	var ks []string
	for k := range p {
		ks = append(ks, k)
	}
	sort.Strings(ks)
	var parts []string
	for _, k := range ks {
		parts = append(parts, fmt.Sprintf("%s=%d", k, p[k]))
	}
	return strings.Join(parts, ",")
}
