// gosymex: a path-exploring symbolic executor over go/ssa for the coredhcp
// verification harnesses. See /verif/DESIGN.md.
package main

import (
	"fmt"
	"os"
	"sort"
	"strconv"
	"strings"
	"time"

	"golang.org/x/tools/go/ssa"
)

func main() {
	if len(os.Args) < 2 {
		fmt.Println("usage: gosymex check -property Cxx [-tier quick|thorough] | replay <file> | run ... | selftest")
		os.Exit(2)
	}
	switch os.Args[1] {
	case "check":
		os.Exit(cmdCheck(os.Args[2:]))
	case "replay":
		os.Exit(cmdReplay(os.Args[2:]))
	case "run":
		os.Exit(cmdRun(os.Args[2:]))
	case "selftest":
		os.Exit(cmdSelftest(os.Args[2:]))
	}
	fmt.Println("unknown command", os.Args[1])
	os.Exit(2)
}

// cmdRun explores one entry and prints what happened (development aid).
func cmdRun(args []string) int {
	pkg, hdir, entry, picks, solverBin := "", "", "", "", "z3-new"
	unwind := 64
	verbose := false
	var stubsArg []string
	timeout := 20
	for i := 0; i < len(args); i++ {
		switch args[i] {
		case "-pkg":
			i++
			pkg = args[i]
		case "-harness":
			i++
			hdir = args[i]
		case "-entry":
			i++
			entry = args[i]
		case "-pick":
			i++
			picks = args[i]
		case "-unwind":
			i++
			unwind, _ = strconv.Atoi(args[i])
		case "-solver":
			i++
			solverBin = args[i]
		case "-stub":
			i++
			stubsArg = append(stubsArg, args[i])
		case "-timeout":
			i++
			timeout, _ = strconv.Atoi(args[i])
		case "-v":
			verbose = true
		}
	}
	t0 := time.Now()
	ec := &EntryCfg{Pkg: pkg, Harness: hdir, Entry: entry}
	// take stubs and options from checks.json when the entry is configured there
	if cfg, _, err := loadConfig(); err == nil {
		for _, id := range sortedChecks(cfg) {
			for _, e := range cfg.entriesOf(id) {
				if e.Entry == entry {
					c := e
					ec = &c
					if pkg == "" {
						pkg, hdir = e.Pkg, e.Harness
					}
				}
			}
		}
	}
	hd := map[string]string{relOf(pkg): hdir}
	for k, v := range ec.Overlays {
		hd[k] = v
	}
	ov, err := harnessOverlay(verifDir(), hd)
	if err != nil {
		fmt.Println(err)
		return 2
	}
	eng, err := loadEngine([]string{pkg}, ov)
	if err != nil {
		fmt.Println("HARNESS-BUILD-FAILURE", err)
		return 2
	}
	eng.initAllow = ec.InitAllow
	fmt.Printf("loaded+built in %.1fs\n", time.Since(t0).Seconds())
	fn := eng.findFunc(relOf(pkg), entry)
	if fn == nil {
		fmt.Println("entry not found:", entry)
		return 2
	}
	presets := map[string]int{}
	if picks != "" {
		for _, kv := range strings.Split(picks, ",") {
			p := strings.SplitN(kv, "=", 2)
			v, _ := strconv.Atoi(p[1])
			presets[p[0]] = v
		}
	}
	stubs := map[string]*ssa.Function{}
	for q, rep := range ec.Stubs {
		stubs[q] = eng.findFunc(relOf(pkg), rep)
	}
	for _, s := range stubsArg {
		kv := strings.SplitN(s, "=", 2)
		stubs[kv[0]] = eng.findFunc(relOf(pkg), kv[1])
	}
	if ec.Unwind > 0 && unwind == 64 {
		unwind = ec.Unwind
	}
	ec.Unwind = 0
	tr := runTask(eng, &Task{Entry: ec, Fn: fn, Presets: presets, Stubs: stubs}, solverBin, time.Duration(timeout)*time.Second, unwind, 3, "", verbose)
	kinds := map[string]int{}
	covers := map[string]int{}
	for _, r := range tr.Results {
		kinds[r.Kind]++
		for c := range r.Covers {
			covers[c]++
		}
	}
	fmt.Printf("entry %s: %d paths in %.2fs; instrs %d; forks %d; queries %d (sat %d unsat %d unknown %d) solver %.2fs max %.2fs; functions %d; fault=%q\n",
		entry, len(tr.Results), tr.Wall, tr.Instrs, tr.Forks, tr.Queries, tr.Sat, tr.Unsat, tr.Unknown, tr.SolverS, tr.MaxQ, len(tr.Funcs), tr.Fault)
	fmt.Println("path kinds:", kinds)
	fmt.Println("covers:", covers)
	shown := map[string]int{}
	for _, r := range tr.Results {
		if r.Kind == "ok" || r.Kind == "infeasible" {
			continue
		}
		k := r.Kind + r.Label + r.Pos
		shown[k]++
		if shown[k] > 2 {
			continue
		}
		fmt.Printf("  %s: %s %s @ %s picks=%v\n", r.Kind, r.Label, r.Msg, r.Pos, r.Picks)
		for _, d := range r.Draws {
			fmt.Printf("      %s(%s) = %v\n", d.Label, d.Kind, d.Vals)
		}
	}
	if verbose {
		var fl []string
		for f := range tr.Funcs {
			fl = append(fl, f.String())
		}
		sort.Strings(fl)
		fmt.Println("functions encoded:", strings.Join(fl, ", "))
	}
	return 0
}

func cmdSelftest(args []string) int {
	// the twin harnesses (VerifH_selftest_*) must come back violated and natively reproduced
	code := cmdCheck([]string{"-property", "SELFTEST", "-tier", "quick"})
	if code == 1 {
		fmt.Println("selftest: the deliberately false assertions were found and reproduced natively: OK")
		return 0
	}
	fmt.Println("selftest FAILED: expected violations from the twin harnesses, exit", code)
	return 1
}
