#!/bin/bash
# runs every claimed check of the given tier and prints one summary line each
cd /verif
tier=${1:-quick}
if [ ! -x bin/gosymex ] || [ -n "$REBUILD" ]; then (cd engine && GOFLAGS=-mod=vendor GOPROXY=off GOSUMDB=off GOTOOLCHAIN=local go build -o ../bin/gosymex .); fi
for p in $(python3 -c "import json;print(' '.join(c['property_id'] for c in json.load(open('/verif/MANIFEST.json'))['checks']))"); do
  s=$(date +%s)
  out=$(bin/gosymex check -property $p -tier $tier 2>&1)
  rc=$?
  echo "== $p rc=$rc $(( $(date +%s) - s ))s :: $(echo "$out" | tail -1 | cut -c1-220)"
  echo "$out" | grep "^VIOLATION\|^INCONCLUSIVE\|^VACUOUS\|^ENCODER\|^KNOWN\|^HARNESS\|^CONFIG" | head -8 | cut -c1-250
done
