//go:build verif

package allocators

import (
	"net"

	"github.com/coredhcp/coredhcp/internal/vnd"
)

func aligned(b vnd.U128, p int) bool {
	// low 128-p bits are zero
	return vnd.U128Eq(vnd.U128Shl(vnd.U128Lshr(b, uint(128-p)), uint(128-p)), b)
}

// VerifH_Offset: Offset(x, base, p) in both argument orders against a 128-bit reference.
func VerifH_Offset() {
	p := vnd.Pick("p", 0, 128)
	xb := vnd.Bytes("x", 16)
	bb := vnd.Bytes("base", 16)
	x, b := vnd.U128From(xb), vnd.U128From(bb)
	vnd.Assume(aligned(b, p))
	vnd.Assume(!vnd.U128Less(x, b))
	ref := vnd.U128Lshr(vnd.U128Sub(x, b), uint(128-p))
	ovf := ref.Hi != 0

	r, err := Offset(net.IP(xb), net.IP(bb), p)
	if err != nil {
		vnd.Cover("overflow")
		vnd.Assert(err == ErrOverflow, "C20 offset error value")
		vnd.Assert(ovf, "C20 offset error only on overflow")
	} else {
		vnd.Cover("ok")
		vnd.Assert(!ovf, "C20 offset overflow reported")
		vnd.Assert(r == ref.Lo, "C20 offset index")
	}
	r2, err2 := Offset(net.IP(bb), net.IP(xb), p)
	vnd.Assert((err2 != nil) == (err != nil), "C20 offset symmetric error")
	if err2 == nil && err == nil {
		vnd.Assert(r2 == r, "C20 offset symmetric value")
	}
}

// VerifH_AddPrefixes: AddPrefixes(base, n, p) against base + n*2^(128-p).
func VerifH_AddPrefixes() {
	p := vnd.Pick("p", 0, 128)
	bb := vnd.Bytes("base", 16)
	n := vnd.U64("n")
	b := vnd.U128From(bb)
	vnd.Assume(aligned(b, p))
	nn := vnd.U128FromU64(n)
	off := vnd.U128Shl(nn, uint(128-p))
	ovf := vnd.U128ShlOverflows(nn, uint(128-p)) || vnd.U128AddOverflows(b, off)
	sum := vnd.U128Add(b, off)

	ip, err := AddPrefixes(net.IP(bb), n, uint64(p))
	if err != nil {
		vnd.Cover("overflow")
		vnd.Assert(ovf, "C20 add error only on overflow")
		return
	}
	vnd.Cover("ok")
	vnd.Assert(!ovf, "C20 add never wraps silently")
	vnd.Assert(len(ip) == 16, "C20 add result length")
	if len(ip) == 16 {
		vnd.Assert(vnd.U128Eq(vnd.U128From(ip), sum), "C20 add value")
		back, berr := Offset(ip, net.IP(bb), p)
		vnd.Assert(berr == nil && back == n, "C20 inverse")
	}
}

// VerifH_BadPrefixLen: a prefix length outside 0..128 is an error, never a panic.
func VerifH_BadPrefixLen() {
	p := vnd.Int("p")
	vnd.Assume(p < 0 || p > 128)
	xb := vnd.Bytes("x", 16)
	bb := vnd.Bytes("base", 16)
	_, err := Offset(net.IP(xb), net.IP(bb), p)
	vnd.Cover("rejected")
	vnd.Assert(err != nil, "C20 prefix length outside 0..128 is rejected")
}

// VerifH_selftest_C20 is the vacuity twin: its last assertion is false and must
// come back violated and reproduce natively.
func VerifH_selftest_C20() {
	p := vnd.Pick("p", 0, 128)
	xb := vnd.Bytes("x", 16)
	bb := vnd.Bytes("base", 16)
	x, b := vnd.U128From(xb), vnd.U128From(bb)
	vnd.Assume(aligned(b, p))
	vnd.Assume(!vnd.U128Less(x, b))
	r, err := Offset(net.IP(xb), net.IP(bb), p)
	vnd.Assert(err != nil || r != 3, "SELFTEST reachable-and-false")
}
